"""C29 — filesystem isolation never modifies or deletes pre-existing paths.

Decides the bookkeeping discipline of FilesystemIsolation: a path is recorded as created (and
hence deleted on exit) only if, before the wrapped call ran, it was tested not to be a foreign
(pre-existing, non-isolated) path, and only when the wrapped call returned normally; wrapped
calls that overwrite or destroy their target are preceded by the foreign / created test; exit
un-patches before it cleans up and deletes only recorded paths; every patch is registered for
undoing.  By interpretation: the tracked wrappers, run around stubs with the signatures of the
real os / shutil / pathlib callables, test / record / forget exactly what python binds to the
path parameters for positional, keyword and mixed calls (and the table's indices name those
parameters); _abspath of a relative name follows a chdir although helpers are memoised;
_is_write_mode is right for every mode string open() accepts.
Paths reached through untracked APIs and races with other processes are not decided.
Further clauses (added later): C29.open-bindings interprets the loop over the open-like bindings with the real
modules: builtins.open, io.open, Path.open and os.open are all replaced.
"""

from __future__ import annotations

import ast
import re

from sa.engine.cfg import CFG
from sa.engine.guards import establishes, nnf
from sa.engine.index import AnalysisError, last_attr, norm, own_nodes, parent

FS = "pynguin.utils.fs_isolation"
CLS = "FilesystemIsolation"

DESTRUCTIVE = {"remove", "unlink", "rmdir", "rmtree", "rename", "replace", "move", "removedirs", "truncate"}
OVERWRITING = {"write_text", "write_bytes"}
COPYING = {"copyfile", "copy", "copy2", "copytree", "rename", "replace", "move", "link", "symlink"}


def _stmt(n):
    while n is not None and not isinstance(n, ast.stmt):
        n = parent(n)
    return n


def _enclosing_conds(stmt, stop):
    out = []
    n, p = stmt, parent(stmt)
    while p is not None and p is not stop:
        if isinstance(p, ast.If):
            if n in p.body:
                out.append((p.test, True))
            elif n in p.orelse:
                out.append((p.test, False))
        n, p = p, parent(p)
    return out


def _conjuncts(test, pol):
    f = nnf(test, pol)
    lits = []

    def rec(x):
        if x[0] == "lit":
            lits.append(x)
        elif x[0] == "and":
            for y in x[1]:
                rec(y)

    rec(f)
    return lits


def _wrappers(repo):
    """(factory qualname, wrapper FunctionDef) for every nested function that calls original_func."""
    mod = repo.module(FS)
    out = []
    for qn, fn in mod.functions.items():
        if ".<locals>." in qn and qn.startswith(CLS + "."):
            if any(isinstance(n, ast.Call) and norm(n.func) == "original_func" for n in own_nodes(fn)):
                out.append((qn, fn))
    return out


def _argument_binding(ctx, repo) -> None:
    """Interpret the tracked wrappers around stubs that carry the signatures of the real os / shutil /
    pathlib callables, for every calling convention python accepts (positional, keyword, mixed): the
    paths tested before the wrapped call and recorded / forgotten after it are the values python itself
    binds to the parameters the patch table names."""
    import inspect
    import os
    import pathlib
    import shutil

    from sa.engine import peval

    mod = repo.module(FS)
    cres = peval.repo_class_resolver(repo)
    ip = repo.func(FS, f"{CLS}._initialize_patches")
    tab = next((n.value for n in own_nodes(ip) if isinstance(n, ast.Assign) and norm(n.targets[0]) == "patches" and isinstance(n.value, ast.Dict)), None)
    if tab is None:
        raise AnalysisError("_initialize_patches: patch table not found")
    real_modules = {"os": os, "shutil": shutil, "Path": pathlib.Path}
    factory = repo.func(FS, f"{CLS}._create_tracked_method")
    ctx.analysed(factory)

    def harness(created):
        log = []
        it = peval.Interp(resolver=peval.repo_resolver(repo), class_resolver=cres, externs={"inspect.signature": inspect.signature}, native_types=(inspect.Signature, type(inspect.signature(os.rename).parameters)), max_steps=100000)
        iso = it.instantiate(CLS, cres(CLS, mod), [], {}, init=False)
        iso.fields["_created"] = set(created)
        iso.methods["_is_foreign"] = lambda p: (log.append(("tested", p)), False)[1]
        iso.methods["_abspath"] = lambda p: (log.append(("membership", p)), str(p))[1]
        iso.methods["_record_created"] = lambda *ps: log.append(("recorded", tuple(x for x in ps if x is not None)))
        iso.methods["_forget"] = lambda *ps: log.append(("forgotten", tuple(x for x in ps if x is not None)))
        return iso, log

    for k, v in zip(tab.keys, tab.values):
        if not (isinstance(k, ast.Tuple) and isinstance(v, ast.Dict)):
            continue
        owner, name = norm(k.elts[0]), ast.literal_eval(k.elts[1])
        real = getattr(real_modules.get(owner), name, None)
        if real is None:
            ctx.undecide("C29.args", v, f"{owner}.{name}: not a callable of this python")
            continue
        spec = {ast.literal_eval(a): ast.literal_eval(b) for a, b in zip(v.keys, v.values)}
        sig = inspect.signature(real)
        params = list(sig.parameters.values())
        idxs = {kind: spec[kind] for kind in ("forget_arg_idx", "record_arg_idx", "record_dst_idx") if spec.get(kind) is not None}
        roles = {"record_dst_idx": ("dst",), "forget_arg_idx": ("src", "path", "self", "name"), "record_arg_idx": ("path", "name", "self")}
        wrong = [f"{kind}={i} names parameter `{params[i].name if i < len(params) else None}` of {owner}.{name}{sig}" for kind, i in idxs.items() if i >= len(params) or params[i].name not in roles[kind]]
        ctx.check("C29.args", v, not wrong, f"patch table entry {owner}.{name}: " + "; ".join(wrong) + ": the guard and the bookkeeping look at a parameter that is not the path the operation " + ("writes" if any("dst" in w for w in wrong) else "creates or destroys"), what=f"{owner}.{name}: indices name the path parameters", stmt=f"[indices] {owner}.{name}")
        if wrong:
            continue
        n_path = max(idxs.values()) + 1
        values = [f"/iso/{name}/p{i}" for i in range(n_path)]
        # calling conventions: how many leading path parameters are passed positionally
        for n_pos in range(n_path + 1):
            if any(params[i].kind is inspect.Parameter.POSITIONAL_ONLY or params[i].name == "self" for i in range(n_pos, n_path)):
                continue
            args = tuple(values[:n_pos])
            kwargs = {params[i].name: values[i] for i in range(n_pos, n_path)}
            extra = [p_ for p_ in params[n_path:] if p_.default is inspect.Parameter.empty and p_.kind in (inspect.Parameter.POSITIONAL_OR_KEYWORD, inspect.Parameter.POSITIONAL_ONLY)]
            if extra and n_pos == n_path:
                args = (*args, *["data"] * len(extra))
            elif extra:
                kwargs.update({p_.name: "data" for p_ in extra})
            label = f"[{owner}.{name}({', '.join([*map(repr, args), *[f'{a}={b!r}' for a, b in kwargs.items()]])})]"
            calls = []

            def stub(*a, _calls=calls, **kw):
                _calls.append((a, kw))

            stub.__signature__ = sig
            iso, log = harness(values)
            try:
                tracked = iso.methods["_create_tracked_method"](stub, **spec)
                tracked(*args, **kwargs)
            except peval.Undecided as exc:
                ctx.undecide("C29.args", v, f"{label}: {exc}")
                continue
            except peval.Raises as exc:
                ctx.fail("C29.args", v, f"{label}: the wrapper raises {exc.name} ({exc.detail[:60]}) for a call python accepts on paths the isolation created", stmt=label)
                continue
            at_call = next((i for i, e in enumerate(log) if e[0] in ("recorded", "forgotten")), len(log))
            before, after = log[:at_call], log[at_call:]
            problems = []
            if calls != [(args, kwargs)]:
                problems.append(f"the wrapped callable is called with {calls}")
            if "forget_arg_idx" in idxs:
                want = values[idxs["forget_arg_idx"]]
                if ("membership", want) not in before:
                    problems.append(f"the path that is destroyed / moved away, {want!r}, is not the one tested to be a created path ({[e for e in before if e[0] == 'membership']})")
                if ("forgotten", (want,)) not in after:
                    problems.append(f"{want!r} is not forgotten afterwards ({[e for e in after if e[0] == 'forgotten']})")
            tested = [e[1] for e in before if e[0] == "tested"]
            recorded = [x for e in after if e[0] == "recorded" for x in e[1]]
            for kind in ("record_dst_idx", "record_arg_idx"):
                if kind in idxs:
                    want = values[idxs[kind]]
                    if (kind == "record_dst_idx" or spec.get("overwrites")) and want not in tested:
                        problems.append(f"the path that is written, {want!r}, is not tested to be foreign before the call (tested: {tested})")
                    if want not in recorded:
                        problems.append(f"{want!r} is not recorded as created (recorded: {recorded})")
            ctx.check("C29.args", v, not problems, f"{label}: " + "; ".join(problems) + ": with this calling convention the guard looks at another argument than the one the operation writes or destroys - a pre-existing path is overwritten, or a created one left behind", what=label, stmt=label)


def _open_modes(ctx, repo) -> None:
    """_is_write_mode interpreted over every mode string open() accepts (one of r/w/a/x, optional +, optional
    b/t, in any order): it says `write` exactly for the modes that can change or create the file."""
    import itertools

    from sa.engine import peval

    fn = repo.func(FS, f"{CLS}._is_write_mode")
    ctx.analysed(fn)
    modes = set()
    for kind in "rwax":
        for plus in ("", "+"):
            for enc in ("", "b", "t"):
                for perm in itertools.permutations([c for c in (kind, plus, enc) if c]):
                    modes.add("".join(perm))
    bad = []
    for mode in sorted(modes):
        try:
            got = bool(peval.Interp(resolver=peval.repo_resolver(repo)).run_function(fn, [mode], {}, repo.module(FS)))
        except (peval.Undecided, peval.Raises) as exc:
            ctx.undecide("C29.modes", fn, f"{mode!r}: {exc}")
            continue
        want = any(c in mode for c in "wax+")
        if got != want:
            bad.append((mode, got))
        else:
            ctx.ok("C29.modes", fn, f"mode {mode!r} -> {'write' if want else 'read'}")
    ctx.check("C29.modes", fn, not bad, f"_is_write_mode misjudges {[m for m, _g in bad][:8]} (answers {[g for _m, g in bad][:8]}): open() on a pre-existing file in such a mode is neither refused nor recorded, so the code under test rewrites the file in place and it stays changed", what="all open() modes classified", stmt="[modes]")


def _cwd_independence(ctx, repo) -> None:
    """_abspath interpreted for a relative name before and after the working directory changed, with the
    memoisation of cached helpers modelled (one cache for both calls, as in one process)."""
    import posixpath

    from sa.engine import peval
    from sa.engine.index import decorator_names

    mod = repo.module(FS)
    cres = peval.repo_class_resolver(repo)
    ab = repo.func(FS, f"{CLS}._abspath")
    ctx.analysed(ab)
    cwd = ["/work/A"]
    memo: dict = {}
    cached = {qn: fn for qn, fn in mod.functions.items() if "." not in qn and any("cache" in d for d in decorator_names(fn))}
    externs = {"os.getcwd": lambda: cwd[0], "os.path.abspath": lambda p: posixpath.normpath(posixpath.join(cwd[0], str(p))), "os.path.isabs": posixpath.isabs, "os.path.join": posixpath.join,
               "os.path.normpath": posixpath.normpath, "os.fspath": lambda p: str(p), "Path.cwd": lambda: cwd[0]}
    holder = {}

    def memoised(qn, fn):
        def call(*args):
            key = (qn, args)
            if key not in memo:
                memo[key] = holder["it"].run_function(fn, list(args), {}, mod)
            return memo[key]

        return call

    for qn, fn in cached.items():
        externs[qn] = memoised(qn, fn)
    it = peval.Interp(resolver=peval.repo_resolver(repo), class_resolver=cres, externs=externs, native_types=(type(posixpath),))
    holder["it"] = it
    iso = it.instantiate(CLS, cres(CLS, mod), [], {}, init=False)
    for rel in ("out.txt", "sub/../out.txt"):
        try:
            cwd[0] = "/work/A"
            first = iso.methods["_abspath"](rel)
            cwd[0] = "/work/B"
            second = iso.methods["_abspath"](rel)
            absolute = iso.methods["_abspath"]("/work/A/out.txt")
        except (peval.Undecided, peval.Raises) as exc:
            ctx.undecide("C29.cwd", ab, f"{rel}: {exc}")
            continue
        ok = first == "/work/A/out.txt" and second == "/work/B/out.txt" and absolute == "/work/A/out.txt"
        ctx.check("C29.cwd", ab, ok, f"_abspath({rel!r}) is {first!r} in /work/A and {second!r} after the code under test changed to /work/B (memoised helpers: {sorted(cached)}): the bookkeeping of created paths and the foreign-path test then look at a file of the old directory - `open('out.txt', 'w')` after os.chdir overwrites a pre-existing file", what=f"_abspath({rel!r}) follows the working directory", stmt=f"[cwd] {rel}")


def check(ctx) -> None:
    repo = ctx.repo
    ctx.rule("C29.open-bindings", "ABSINT: the loop over the open-like bindings, interpreted with the real builtins / io / pathlib / os modules, patches builtins.open, io.open, Path.open and os.open", floor=4)
    _open_bindings(ctx, repo)
    ctx.rule("C29.modes", "ABSINT: _is_write_mode over every mode string open() accepts (r/w/a/x, +, b/t in any order) answers write exactly for the modes that can change or create the file", floor=40)
    _open_modes(ctx, repo)
    ctx.rule("C29.cwd", "ABSINT: _abspath of a relative name follows the current working directory although helpers are memoised (the cache is modelled across a chdir)", floor=2)
    _cwd_independence(ctx, repo)
    ctx.rule("C29.args", "ABSINT: the tracked wrappers, interpreted around stubs with the signatures of the real os / shutil / pathlib callables, test / record / forget exactly the values python binds to the parameters named by the patch table - for positional, keyword and mixed calls", floor=25)
    _argument_binding(ctx, repo)
    ctx.rule("C29.preexist", "GUARD-DOM: every path handed to _record_created was, before the wrapped call, tested by _is_foreign (raise, or rebind to None), or is the result of a rename whose source was created and whose target was tested", floor=5)
    ctx.rule("C29.destructive", "the wrapped call of a destructive / overwriting wrapper is dominated by the created-membership or foreign test on its target", floor=5)
    ctx.rule("C29.table", "every destructive os/shutil/Path entry of the patch table has forget_arg_idx, every overwriting one `overwrites`, every copying one record_dst_idx", floor=19)
    ctx.rule("C29.exit", "__exit__ un-patches (exit stack closed) before the cleanup loop, deletes only elements of _created through the loop variable, and clears the set", floor=4)
    ctx.rule("C29.patches", "every patch(...) / patch.object(...) / patch.dict(...) is entered on the exit stack", floor=5)
    ctx.rule("C29.bookkeeping", "WHO-MAY-SHRINK: _created loses entries only by the exact-path discard in _forget, by clear() in __exit__, or by a separator-terminated prefix selection", floor=2)
    ctx.rule("C29.foreign", "_is_foreign is `exists and not in _created`, exempting only the isolation's own temporary directory", floor=2)

    mod = repo.module(FS)
    wrappers = _wrappers(repo)
    if len(wrappers) < 4:
        raise AnalysisError(f"only {len(wrappers)} tracked wrappers found in FilesystemIsolation")

    for qn, fn in wrappers:
        ctx.analysed(fn)
        cfg = CFG(fn)
        orig_calls = [n for n in own_nodes(fn) if isinstance(n, ast.Call) and norm(n.func) == "original_func"]
        orig_nodes = [i for c in orig_calls for i in cfg.nodes_of(_stmt(c))]
        records = [n for n in own_nodes(fn) if isinstance(n, ast.Call) and norm(n.func) == "self._record_created"]
        res_names = {norm(s.targets[0]) for c in orig_calls for s in [_stmt(c)] if isinstance(s, ast.Assign)}
        for rc in records:
            rst = _stmt(rc)
            rnodes = cfg.nodes_of(rst)
            # conditions under which the record happens (used as correlation for bypass literals)
            same = set()
            for t, pol in _enclosing_conds(rst, fn):
                for _k, e, p in _conjuncts(t, pol):
                    if p:
                        same.add(norm(e))
            for a in rc.args:
                if isinstance(a, ast.Constant) and a.value is None:
                    continue
                name = norm(a)
                if name in res_names:
                    # result of the wrapped call (Path.rename returns the new path): target must have been tested
                    tgt_tested = False
                    for n in cfg.nodes:
                        if n.kind == "test" and any(isinstance(x, ast.Call) and norm(x.func) == "self._is_foreign" for x in ast.walk(n.stmt.test)):
                            tgt_tested = True
                    ctx.check("C29.preexist", rst, tgt_tested, f"{qn}: the rename/replace result `{name}` is recorded without the target having been tested by _is_foreign before the call", what=f"{qn}: rename target tested before the call", stmt=f"[{name}] {norm(rc)}")
                    continue

                def wanted(lit, name=name):
                    _k, e, pol = lit
                    return (not pol) and isinstance(e, ast.Call) and norm(e.func) == "self._is_foreign" and e.args and norm(e.args[0]) == name

                def bypass(lit, same=same):
                    _k, e, pol = lit
                    return (not pol) and norm(e) in same

                ge = set()
                for n in cfg.nodes:
                    if n.kind == "test" and isinstance(n.stmt, ast.If):
                        for lab, pos in (("true", True), ("false", False)):
                            if establishes(nnf(n.stmt.test, pos), wanted, bypass):
                                ge.add((n.id, lab))
                rebinds = {n.id for n in cfg.nodes if n.kind == "stmt" and isinstance(n.stmt, ast.Assign) and norm(n.stmt.targets[0]) == name and norm(n.stmt.value) == "None"}
                # the test/rebind must happen before the wrapped call on every path
                p1 = cfg.path([cfg.entry], orig_nodes, avoid_edges=lambda s, d, lab, ge=ge: (s, lab) in ge, avoid_nodes=rebinds)
                ctx.paths += 1
                ctx.check("C29.preexist", rst, p1 is None, f"{qn}: `{name}` is recorded as created although a path reaches the wrapped call without `self._is_foreign({name})` having been tested (raise, or rebind to None): a path that existed before the execution is deleted when the isolation exits", what=f"{qn}: `{name}` tested by _is_foreign before the wrapped call", path=cfg.describe_path(p1) if p1 else [], stmt=f"[{name}] {norm(rc)}")
                # and the name is not re-assigned from the arguments afterwards
                later = [n for n in cfg.nodes if n.kind == "stmt" and isinstance(n.stmt, ast.Assign) and norm(n.stmt.targets[0]) == name and norm(n.stmt.value) != "None"]
                after = [n for n in later if any(n.id in cfg.reachable([o]) for o in orig_nodes)]
                ctx.check("C29.preexist", rst, not after, f"{qn}: `{name}` is re-read from the arguments after the foreign test (`{norm(after[0].stmt) if after else ''}`): the tested value and the recorded value differ", what=f"{qn}: `{name}` not rebound after the test", stmt=f"[{name}] rebound")

        # ---- destructive: forget / rename wrappers
        forget_names = {norm(n.targets[0]) for n in own_nodes(fn) if isinstance(n, ast.Assign) and "forget_arg_idx" in norm(n.value)}
        is_rename = "rename" in qn
        if forget_names or is_rename:
            def created_guard(lit):
                _k, e, pol = lit
                return pol and isinstance(e, ast.Compare) and isinstance(e.ops[0], ast.In) and norm(e.comparators[0]) == "self._created"

            def no_target(lit, forget_names=forget_names):
                _k, e, pol = lit
                return (not pol) and norm(e) in forget_names

            ge = set()
            for n in cfg.nodes:
                if n.kind == "test" and isinstance(n.stmt, ast.If):
                    for lab, pos in (("true", True), ("false", False)):
                        if establishes(nnf(n.stmt.test, pos), created_guard, no_target) or (not pos and any(no_target(l) for l in [nnf(n.stmt.test, False)] if l[0] == "lit")):
                            ge.add((n.id, lab))
            p = cfg.path([cfg.entry], orig_nodes, avoid_edges=lambda s, d, lab, ge=ge: (s, lab) in ge)
            ctx.paths += 1
            ctx.check("C29.destructive", fn, p is None, f"{qn}: the wrapped destructive call is reachable without its target having been found in _created: pre-existing paths can be deleted or renamed", what=f"{qn}: destructive call only on created paths", path=cfg.describe_path(p) if p else [])

    # overwriting parameters of the generic wrapper: `overwrites and _is_foreign(rec)` and `_is_foreign(dst)` raise
    tm = repo.func(FS, f"{CLS}._create_tracked_method.<locals>.tracked_method")
    raises = [n for n in own_nodes(tm) if isinstance(n, ast.If) and any(isinstance(x, ast.Raise) for x in n.body)]
    txt = " || ".join(norm(r.test) for r in raises)
    ctx.check("C29.destructive", tm, "self._is_foreign(dst)" in txt, "the generic wrapper no longer refuses to overwrite a foreign destination (copy/rename/move onto a pre-existing path)", what="foreign destination refused", stmt="[dst]")
    ctx.check("C29.destructive", tm, re.search(r"overwrites and self\._is_foreign\(rec\)", txt) is not None, "the generic wrapper no longer refuses overwriting calls (write_text/write_bytes) on a foreign path", what="overwriting call on foreign path refused", stmt="[overwrites]")
    for qn in (f"{CLS}._create_open_tracked.<locals>.tracked_open", f"{CLS}._os_open_tracked.<locals>.tracked_os_open"):
        f = repo.func(FS, qn)
        cfg = CFG(f)
        orig = [i for c in own_nodes(f) if isinstance(c, ast.Call) and norm(c.func) == "original_func" for i in cfg.nodes_of(_stmt(c))]
        rz = [n for n in own_nodes(f) if isinstance(n, ast.If) and any(isinstance(x, ast.Raise) for x in n.body) and "self._is_foreign(" in norm(n.test)]
        ok = bool(rz)
        if ok:
            # the raise test precedes the wrapped call and its write condition equals the record condition
            recs = [n for n in own_nodes(f) if isinstance(n, ast.Call) and norm(n.func) == "self._record_created"]
            rec_conds = {norm(e) for r in recs for t, pol in _enclosing_conds(_stmt(r), f) for _k, e, p in _conjuncts(t, pol) if p}
            raise_conds = {norm(e) for _k, e, p in _conjuncts(rz[0].test, True) if p and "_is_foreign" not in norm(e)}
            ok = raise_conds == rec_conds and all(rz[0].lineno < f_.lineno for f_ in [_stmt(c) for c in own_nodes(f) if isinstance(c, ast.Call) and norm(c.func) == "original_func"])
        ctx.check("C29.destructive", f, ok, f"{qn}: opening a foreign path for writing is not refused before the wrapped open under exactly the condition under which the path is later recorded", what=f"{qn}: write-open of a foreign path refused")

    # ------------------------------------------------------------------ C29.table
    ip = repo.func(FS, f"{CLS}._initialize_patches")
    ctx.analysed(ip)
    tab = next((n.value for n in own_nodes(ip) if isinstance(n, ast.Assign) and norm(n.targets[0]) == "patches" and isinstance(n.value, ast.Dict)), None)
    if tab is None:
        raise AnalysisError("_initialize_patches: patch table not found")
    for k, v in zip(tab.keys, tab.values):
        target = norm(k)
        name = norm(k.elts[1]).strip("'\"") if isinstance(k, ast.Tuple) else target
        keys = {norm(x).strip("'\"") for x in v.keys} if isinstance(v, ast.Dict) else set()
        vals = {norm(x).strip("'\""): norm(y) for x, y in zip(v.keys, v.values)} if isinstance(v, ast.Dict) else {}
        bad = []
        if name in DESTRUCTIVE and "forget_arg_idx" not in keys:
            bad.append("destructive call without forget_arg_idx (its target is not required to be a created path)")
        if name in OVERWRITING and vals.get("overwrites") != "True":
            bad.append("overwriting call without overwrites=True")
        if name in COPYING and "record_dst_idx" not in keys:
            bad.append("copy/move without record_dst_idx (destination neither tested nor cleaned up)")
        if not (keys & {"record_arg_idx", "record_dst_idx", "forget_arg_idx"}):
            bad.append("entry tracks nothing")
        ctx.check("C29.table", v, not bad, f"patch table entry {target}: {'; '.join(bad)}", what=f"{target}: {sorted(keys)}", stmt=f"[{target}]")
    # the loop applies every table entry
    loops = [n for n in own_nodes(ip) if isinstance(n, ast.For) and norm(n.iter) == "patches.items()"]
    ok = len(loops) == 1 and any(isinstance(x, ast.Call) and last_attr(x) == "_create_tracked_method" and any(k.arg is None for k in x.keywords) for x in ast.walk(loops[0]))
    ctx.check("C29.table", ip, ok, "the patch table is no longer applied entry by entry with its tracking arguments", what="table applied with **track_kwargs", stmt="[apply]")

    # ------------------------------------------------------------------ C29.patches
    for qn, fn in mod.functions.items():
        if not qn.startswith(CLS + ".") or ".<locals>." in qn:
            continue
        for n in own_nodes(fn):
            if isinstance(n, ast.Call) and norm(n.func) in ("patch", "patch.object", "patch.dict", "mock.patch", "mock.patch.object"):
                p = parent(n)
                ok = isinstance(p, ast.Call) and norm(p.func) == "self._exit_stack.enter_context"
                ctx.check("C29.patches", n, ok, f"{qn}: `{norm(n)[:70]}` is not entered on the exit stack: the patch survives the isolation", what=f"{qn}: patch entered on the exit stack")

    # ------------------------------------------------------------------ C29.exit
    ex = repo.func(FS, f"{CLS}.__exit__")
    ctx.analysed(ex)
    cfg = CFG(ex)
    loops = [n for n in own_nodes(ex) if isinstance(n, ast.For)]
    if len(loops) != 1:
        raise AnalysisError("__exit__: cleanup loop not found")
    lp = loops[0]
    ok_iter = "self._created" in norm(lp.iter) and not any(isinstance(x, ast.Attribute) and x.attr != "_created" and norm(x.value) == "self" for x in ast.walk(lp.iter))
    ctx.check("C29.exit", lp, ok_iter, f"the cleanup loop iterates `{norm(lp.iter)[:80]}`, not only the recorded paths", what="cleanup iterates self._created only")
    v = norm(lp.target)
    dels = [n for n in ast.walk(lp) if isinstance(n, ast.Call) and last_attr(n) in ("unlink", "rmtree", "rmdir", "remove", "removedirs")]
    okd = bool(dels) and all((norm(d.func.value) in (f"Path({v})",) if last_attr(d) in ("unlink", "rmdir") else (d.args and norm(d.args[0]) in (v, f"Path({v})"))) for d in dels)
    ctx.check("C29.exit", lp, okd, "a deletion in the cleanup loop does not take the loop variable (a recorded path) as its target", what="deletions target the recorded path", stmt="[targets]")
    closes = {n.id for n in cfg.nodes if n.kind == "stmt" and n.stmt is not None and norm(n.stmt) == "self._exit_stack.close()"}
    heads = [i for i in cfg.nodes_of(lp)]
    p = cfg.path([cfg.entry], heads, avoid_nodes=closes)
    ctx.paths += 1
    ctx.check("C29.exit", lp, p is None and bool(closes), "the cleanup loop can run while the tracking wrappers are still installed (exit stack not closed first): rmtree's own unlink/rmdir calls go through the non-isolated-path guard and created trees are left behind", what="exit stack closed before the cleanup", path=cfg.describe_path(p) if p else [], stmt="[order]")
    clears = {n.id for n in cfg.nodes if n.kind == "stmt" and n.stmt is not None and norm(n.stmt) == "self._created.clear()"}
    p = cfg.path([b for h in heads for b, lab in cfg.succ[h] if lab == "exhausted"] or heads, [cfg.exit], avoid_nodes=clears, labels_excluded=("exc",))
    ctx.check("C29.exit", lp, bool(clears) and p is None, "_created is not cleared after the cleanup", what="_created cleared after cleanup", stmt="[clear]")

    # ------------------------------------------------------------------ C29.bookkeeping: who may shrink _created
    for qn, fn in mod.functions.items():
        if not qn.startswith(CLS + "."):
            continue
        for n in own_nodes(fn):
            kind = None
            if isinstance(n, ast.Call) and isinstance(n.func, ast.Attribute) and norm(n.func.value) == "self._created" and n.func.attr in ("discard", "remove", "pop", "clear", "difference_update", "intersection_update", "symmetric_difference_update"):
                kind = n.func.attr
            if isinstance(n, ast.AugAssign) and norm(n.target) == "self._created" and isinstance(n.op, (ast.Sub, ast.BitAnd, ast.BitXor)):
                kind = "augassign"
            if isinstance(n, ast.Assign) and any(norm(t) == "self._created" for t in n.targets) and not qn.endswith("__init__"):
                kind = "rebind"
            if kind is None:
                continue
            ctx.analysed(fn)
            ok = False
            why = f"`{norm(n)[:80]}`"
            if kind == "discard" and qn.endswith("._forget"):
                ok = True
            elif kind == "clear" and qn.endswith(".__exit__"):
                ok = True
            elif kind in ("difference_update", "augassign"):
                arg = n.args[0] if isinstance(n, ast.Call) else n.value
                src = arg
                if isinstance(arg, ast.Name):
                    d = [x for x in own_nodes(fn) if isinstance(x, ast.Assign) and norm(x.targets[0]) == arg.id]
                    src = d[0].value if len(d) == 1 else None
                if isinstance(src, (ast.ListComp, ast.SetComp, ast.GeneratorExp)) and len(src.generators) == 1 and len(src.generators[0].ifs) == 1:
                    cond = src.generators[0].ifs[0]
                    if isinstance(cond, ast.Call) and last_attr(cond) == "startswith" and cond.args and isinstance(cond.args[0], ast.BinOp) and norm(cond.args[0].right) in ("os.sep", "os.path.sep", "'/'"):
                        ok = True
                    else:
                        why += f": entries are selected by `{norm(cond)}` - a bare prefix test also matches siblings whose name merely extends the path (`out` / `out.tar`)"
            ctx.check("C29.bookkeeping", n, ok, f"{qn} drops entries from _created by {why}: a path created during the execution is forgotten without having been removed and survives the isolation", what=f"{qn}: {kind} of _created is an accepted form")

    # ------------------------------------------------------------------ C29.foreign
    isf = repo.func(FS, f"{CLS}._is_foreign")
    ctx.analysed(isf)
    rets = [n for n in own_nodes(isf) if isinstance(n, ast.Return) and not (isinstance(n.value, ast.Constant) and n.value.value is False)]
    main = [r for r in rets if isinstance(r.value, ast.BoolOp)]
    def _exists_lit(v):
        t = norm(v)
        # must not follow symlinks: a pre-existing dangling link is a pre-existing path
        return t.startswith("os.path.lexists(") or ("is_symlink()" in t and "exists()" in t and isinstance(v, ast.BoolOp) and isinstance(v.op, ast.Or))

    ok = len(main) == 1 and isinstance(main[0].value.op, ast.And) and any(_exists_lit(v) for v in main[0].value.values) and any(re.fullmatch(r"\w+ not in self\._created", norm(v)) for v in main[0].value.values) and len(rets) == 1
    ctx.check("C29.foreign", isf, ok, "_is_foreign is no longer `lexists(path) and abs(path) not in self._created` (an existence test that follows symlinks or rejects bytes paths misses pre-existing dangling links / byte-named files)", what="foreign = lexists and not created")
    exempt = [n for n in own_nodes(isf) if isinstance(n, ast.If) and any(isinstance(x, ast.Return) and isinstance(x.value, ast.Constant) and x.value.value is False for x in n.body)]
    names = {norm(x) for e in exempt for x in ast.walk(e.test) if isinstance(x, ast.Name)}
    defs = {norm(n.targets[0]): norm(n.value) for n in own_nodes(isf) if isinstance(n, ast.Assign)}
    ok = True
    for e in exempt:
        t = norm(e.test)
        if "is None" in t or "isinstance(path, int)" in t:
            continue
        roots = {defs.get(x, x) for x in names if x in t}
        ok = ok and any("self._tmp.name" in r for r in roots) and not any(k in t for k in ("cwd", "home", "'/"))
    ctx.check("C29.foreign", isf, ok, "_is_foreign exempts paths other than the isolation's own temporary directory", what="only the isolation tmp dir is exempt", stmt="[exempt]")


def _open_bindings(ctx, repo) -> None:
    """Every binding through which code under test reaches an open() is replaced: builtins.open, io.open (the same
    function object, but a binding of its own - zipfile and friends call io.open), Path.open and os.open.  The loop over
    the open-like bindings is interpreted with the real modules, so a de-duplication by function identity shows."""
    import builtins
    import io
    import os as _os
    from pathlib import Path as _Path

    from sa.engine import peval

    fn = repo.func(FS, "FilesystemIsolation._initialize_patches")
    ctx.analysed(fn)
    mod = repo.module(FS)
    anchor = next((s for s in fn.body if isinstance(s, ast.Assign) and norm(s.targets[0]) == "open_patches"), None)
    if anchor is None:
        raise AnalysisError("C29.open-bindings: `open_patches` table vanished from _initialize_patches")
    start = fn.body.index(anchor)
    block = fn.body[start:]
    patched = []
    selfobj = peval.Obj("isolation")
    selfobj.methods["_create_open_tracked"] = lambda original: ("tracked", original)
    selfobj.methods["_os_open_tracked"] = lambda original: ("tracked", original)
    stack = peval.Obj("exit_stack")
    stack.methods["enter_context"] = lambda cm: cm
    selfobj.fields["_exit_stack"] = stack
    it = peval.Interp(resolver=peval.repo_resolver(repo), native_types=(type(builtins), type, type(open)), max_steps=20000,
                      consts={"builtins": builtins, "io": io, "Path": _Path, "os": _os},
                      externs={"patch.object": lambda target, name, **k: patched.append((target, name)) or ("patch", target, name)})
    try:
        it.block(block, {"self": selfobj}, mod)
    except peval._Return:
        pass
    except (peval.Undecided, peval.Raises) as exc:
        ctx.undecide("C29.open-bindings", anchor, f"open-like patches: {exc}")
        return
    for target, name, label in ((builtins, "open", "builtins.open"), (io, "open", "io.open"), (_Path, "open", "Path.open"), (_os, "open", "os.open")):
        ok = any(t is target and n == name for t, n in patched)
        ctx.check("C29.open-bindings", anchor, ok, f"`{label}` is not replaced while a test case runs (patched: {[(getattr(t, '__name__', t), n) for t, n in patched]}): code that opens files through this binding - zipfile.ZipFile(path, 'w') calls io.open - overwrites pre-existing files and leaves created ones behind", what=f"{label} is patched", stmt=f"[open binding] {label}")
