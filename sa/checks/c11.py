"""C11 — adding tests never lowers coverage or raises fitness; merging traces is order-independent.

Decides that ExecutionTrace.merge combines every coverage-relevant field, on every path, with a
commutative, associative, monotone operator applied to the receiver's OWN container (union, sum,
minimum with an `inf` default), that the recording-side twin uses the same minimum, and that
analyze_results folds every result of the suite into a fresh trace with nothing but merge.
Value-level monotonicity of the fitness formulas (e.g. the >=2-executions rule) is not decided.
Further clauses (added later): The Chromosome comparison / sorting helpers are checked to be stateless between
calls.
"""

from __future__ import annotations

import ast
import re

from sa.engine.cfg import CFG
from sa.engine.index import AnalysisError, last_attr, norm, own_nodes, parent

TR = "pynguin.instrumentation.tracer"
FM = "pynguin.ga.fitness_metrics"

# field -> required join class
JOIN = {
    "executed_code_objects": "union",
    "executed_predicates": "sum",
    "true_distances": "min",
    "false_distances": "min",
    "covered_line_ids": "union",
    "checked_lines": "union",
}
INF = ("inf", "math.inf", "float('inf')", 'float("inf")')


def _min_get_inf(expr, mapping: str | None, key: str | None, value: str | None):
    """expr is `min(<mapping>.get(<key>, inf), <value>)` (either argument order). Returns reason or None."""
    if not (isinstance(expr, ast.Call) and norm(expr.func) == "min" and len(expr.args) == 2 and not expr.keywords):
        return f"`{norm(expr)[:80]}` is not a two-argument min()"
    gets = [a for a in expr.args if isinstance(a, ast.Call) and last_attr(a) == "get"]
    others = [a for a in expr.args if a not in gets]
    if len(gets) != 1 or len(others) != 1:
        return f"`{norm(expr)[:80]}` is not min(<accumulator>.get(key, inf), incoming): a falsy/absent accumulator value is not distinguished by an inf default"
    g = gets[0]
    if len(g.args) != 2 or norm(g.args[1]) not in INF:
        return f"`{norm(g)}` has no `inf` default: a missing entry must behave as +infinity and a stored 0.0 must stay 0.0"
    if mapping is not None and norm(g.func.value) != mapping:
        return f"min() reads `{norm(g.func.value)}` but writes `{mapping}`"
    if key is not None and norm(g.args[0]) != key:
        return f"min() reads key `{norm(g.args[0])}` but writes key `{key}`"
    if value is not None and norm(others[0]) != value:
        return f"min() combines with `{norm(others[0])}` instead of the incoming value `{value}`"
    return None


def check_merge_min(ctx, fn):
    """_merge_min(target, source): for key, value in source.items(): target[key] = min(target.get(key, inf), value)"""
    ps = [a.arg for a in fn.args.args if a.arg not in ("self", "cls")]
    if len(ps) != 2:
        ctx.fail("C11.min", fn, "_merge_min no longer takes (target, source)")
        return
    target, source = ps
    loops = [n for n in own_nodes(fn) if isinstance(n, ast.For)]
    ok_loop = len(loops) == 1 and norm(loops[0].iter) == f"{source}.items()" and isinstance(loops[0].target, ast.Tuple) and len(loops[0].target.elts) == 2
    ctx.check("C11.min", loops[0] if loops else fn, ok_loop, "_merge_min no longer iterates over every (key, value) of the source", what="iterates source.items()")
    if not ok_loop:
        return
    k, v = (norm(e) for e in loops[0].target.elts)
    body = [s for s in loops[0].body if not (isinstance(s, ast.Expr) and isinstance(s.value, ast.Constant))]
    ok_shape = len(body) == 1 and isinstance(body[0], ast.Assign) and norm(body[0].targets[0]) == f"{target}[{k}]"
    ctx.check("C11.min", body[0] if body else loops[0], ok_shape, "_merge_min's loop body is no longer a single unconditional `target[key] = ...`: some incoming distances are skipped or handled specially", what="unconditional store per key")
    if ok_shape:
        why = _min_get_inf(body[0].value, target, k, v)
        ctx.check("C11.min", body[0], why is None, why or "", what="target[key] = min(target.get(key, inf), value)", stmt="[min-form] " + norm(body[0])[:120])


def classify_join(repo, merge_fn, stmt, field):
    """Classify a statement of merge() that touches self.<field>: ('union'|'sum'|'min'|'replace'|'other', detail)."""
    if isinstance(stmt, ast.Expr) and isinstance(stmt.value, ast.Call):
        c = stmt.value
        if isinstance(c.func, ast.Attribute) and c.func.attr == "update" and norm(c.func.value) == f"self.{field}" and len(c.args) == 1 and norm(c.args[0]) == f"other.{field}":
            return "union", norm(c)
        if last_attr(c) == "_merge_min" and len(c.args) == 2 and norm(c.args[0]) == f"self.{field}" and norm(c.args[1]) == f"other.{field}":
            return "min", norm(c)
        if last_attr(c) == "_merge_min":
            return "other", f"_merge_min called with ({', '.join(norm(a) for a in c.args)}) instead of (self.{field}, other.{field})"
    if isinstance(stmt, ast.For) and norm(stmt.iter) == f"other.{field}.items()" and isinstance(stmt.target, ast.Tuple) and len(stmt.target.elts) == 2:
        k, v = (norm(e) for e in stmt.target.elts)
        body = [s for s in stmt.body if not (isinstance(s, ast.Expr) and isinstance(s.value, ast.Constant))]
        if len(body) == 1 and isinstance(body[0], ast.Assign) and norm(body[0].targets[0]) == f"self.{field}[{k}]":
            val = norm(body[0].value)
            if val in (f"self.{field}.get({k}, 0) + {v}", f"{v} + self.{field}.get({k}, 0)"):
                return "sum", val
            why = _min_get_inf(body[0].value, f"self.{field}", k, v)
            if why is None:
                return "min", val
            return "other", f"per-key combiner `{val}` is neither sum nor min"
        if len(body) == 1 and isinstance(body[0], ast.AugAssign) and isinstance(body[0].op, ast.Add) and norm(body[0].target) == f"self.{field}[{k}]":
            return "other", "`+=` on a possibly missing key"
    if isinstance(stmt, (ast.Assign, ast.AnnAssign)):
        tg = stmt.targets[0] if isinstance(stmt, ast.Assign) else stmt.target
        if norm(tg) == f"self.{field}":
            return "replace", norm(stmt)[:100]
    return "other", norm(stmt)[:100]


def check(ctx) -> None:
    repo = ctx.repo
    ctx.rule("C11.fields", "FIELD-COMPLETE: ExecutionTrace.merge reads every dataclass field of the other trace", floor=9)
    ctx.rule("C11.join", "every coverage-relevant field is combined on EVERY path of merge by its commutative, associative, monotone join (union / sum / min) applied to the receiver's own container; never replaced", floor=6)
    ctx.rule("C11.min", "the minimum rule reads the accumulator with an `inf` default and the same mapping/key it writes (merge side and recording side)", floor=5)
    ctx.rule("C11.laws", "ABSINT: merge interpreted over representative traces: the argument is left untouched, coverage fields commute and never shrink, assertion positions are shifted by the receiver's instruction count", floor=6)
    _merge_laws(ctx, repo)
    ctx.rule("C11.fold", "analyze_results starts from a fresh ExecutionTrace, visits every result, only merges, and keeps no state between calls", floor=5)

    et = repo.cls(TR, "ExecutionTrace")
    fields = [f for f, _a, _v in repo.dataclass_fields(et)]
    for f in JOIN:
        if f not in fields:
            raise AnalysisError(f"ExecutionTrace field vanished: {f}")
    merge = repo.func(TR, "ExecutionTrace.merge")
    ctx.analysed(merge)
    other = [a.arg for a in merge.args.args if a.arg != "self"]
    if other != ["other"]:
        raise AnalysisError("ExecutionTrace.merge signature changed")
    text_nodes = [norm(n) for n in own_nodes(merge) if isinstance(n, ast.Attribute)]
    for f in fields:
        ctx.check("C11.fields", merge, f"other.{f}" in text_nodes and f"self.{f}" in text_nodes, f"ExecutionTrace.merge ignores field `{f}`: data of the merged trace is lost", what=f"field {f} merged", stmt=f"[{f}]")

    # ------------------------------------------------------------------ C11.join
    cfg = CFG(merge)
    for f, want in JOIN.items():
        touching = []
        for n in cfg.nodes:
            s = n.stmt
            if s is None or n.kind not in ("stmt", "for_iter"):
                continue
            if n.kind == "for_iter":
                if f"other.{f}" in norm(s.iter) or any(norm(t).startswith(f"self.{f}[") for b in s.body for t in (b.targets if isinstance(b, ast.Assign) else [])):
                    touching.append((n, s))
                continue
            # statements directly inside a for-loop that is itself classified are skipped
            p = parent(s)
            if isinstance(p, ast.For) and (f"other.{f}" in norm(p.iter)):
                continue
            txt = norm(s)
            if re.search(rf"\bself\.{f}\b", txt) and (isinstance(s, (ast.Assign, ast.AnnAssign, ast.AugAssign)) and re.search(rf"\bself\.{f}\b", norm(s.targets[0] if isinstance(s, ast.Assign) else s.target)) or isinstance(s, ast.Expr) and isinstance(s.value, ast.Call) and (norm(s.value.func).startswith(f"self.{f}.") or any(norm(a) == f"self.{f}" for a in s.value.args))):
                touching.append((n, s))
        joins = []
        for n, s in touching:
            kind, detail = classify_join(repo, merge, s, f)
            if kind == want:
                joins.append(n.id)
                continue
            if kind == "replace":
                ctx.fail("C11.join", s, f"merge REPLACES self.{f} instead of joining into it: what the receiver had accumulated is discarded (adding a test can lower coverage; result depends on merge order)", stmt=f"[{f}] " + norm(s)[:120])
            else:
                ctx.fail("C11.join", s, f"self.{f} is combined by `{detail}`, not by the required {want} join", stmt=f"[{f}] " + norm(s)[:120])
        # must-pass: every path entry -> exit passes a join of this field
        p = cfg.path([cfg.entry], [cfg.exit], avoid_nodes=set(joins), labels_excluded=("exc",))
        ctx.paths += 1
        ctx.check("C11.join", merge, p is None and bool(joins), f"a path through merge does not {want}-join `{f}` into the receiver: what the other trace covered is lost on that path, or what the receiver covered is not kept", what=f"{f}: {want} join on every path", path=cfg.describe_path(p) if p else [], stmt=f"[{f}] every-path")

    # ------------------------------------------------------------------ C11.min
    mm = repo.func(TR, "ExecutionTrace._merge_min")
    ctx.analysed(mm)
    check_merge_min(ctx, mm)
    upd = repo.func(TR, "ExecutionTrace.update_predicate_distances")
    ctx.analysed(upd)
    ps = [a.arg for a in upd.args.args if a.arg != "self"]
    for field, param in (("true_distances", "distance_true"), ("false_distances", "distance_false")):
        st = [n for n in own_nodes(upd) if isinstance(n, ast.Assign) and norm(n.targets[0]).startswith(f"self.{field}[")]
        if len(st) != 1 or param not in ps:
            ctx.fail("C11.min", upd, f"update_predicate_distances no longer stores {field} exactly once", stmt=f"[{field}]")
            continue
        key = norm(st[0].targets[0].slice)
        why = _min_get_inf(st[0].value, f"self.{field}", key, param)
        ctx.check("C11.min", st[0], why is None, why or "", what=f"{field}[p] = min({field}.get(p, inf), {param})")
    # executed_predicates counts by +1 from a 0 default
    st = [n for n in own_nodes(upd) if isinstance(n, ast.Assign) and norm(n.targets[0]).startswith("self.executed_predicates[")]
    ok = len(st) == 1 and re.fullmatch(r"self\.executed_predicates\.get\((\w+), 0\) \+ 1", norm(st[0].value)) is not None
    ctx.check("C11.min", st[0] if st else upd, ok, "update_predicate_distances no longer counts executions as get(p, 0) + 1", what="execution count += 1 from default 0")

    # ------------------------------------------------------------------ C11.fold
    ar = repo.func(FM, "analyze_results")
    ctx.analysed(ar)
    inits = [n for n in own_nodes(ar) if isinstance(n, ast.Assign) and isinstance(n.value, ast.Call) and norm(n.value.func) == "ExecutionTrace" and not n.value.args and not n.value.keywords]
    ctx.check("C11.fold", inits[0] if inits else ar, len(inits) == 1, "analyze_results does not start from a fresh, empty ExecutionTrace()", what="fresh accumulator")
    acc = norm(inits[0].targets[0]) if inits else "merged"
    loops = [n for n in own_nodes(ar) if isinstance(n, ast.For)]
    ok = len(loops) == 1 and norm(loops[0].iter) == ar.args.args[0].arg
    ctx.check("C11.fold", loops[0] if loops else ar, ok, "analyze_results does not iterate over the complete result list (slice / filter / reversed would drop or reorder traces)", what="iterates all results")
    if loops:
        lp = loops[0]
        exits = [n for n in ast.walk(lp) if isinstance(n, (ast.Break, ast.Continue, ast.Return))]
        ctx.check("C11.fold", lp, not exits, "analyze_results leaves the fold early (break/continue/return): later traces are not merged", what="no early exit from the fold", stmt="[no-early-exit]")
        merges = [n for n in ast.walk(lp) if isinstance(n, ast.Call) and last_attr(n) == "merge" and norm(n.func.value) == acc]
        top = [s for s in lp.body if any(m in list(ast.walk(s)) for m in merges)]
        ok = len(merges) == 1 and len(top) == 1 and isinstance(top[0], ast.Expr)
        ctx.check("C11.fold", lp, ok, "the trace of a result is not unconditionally merged into the accumulator", what="one unconditional merge per result", stmt="[merge-each]")
    rets = [n for n in own_nodes(ar) if isinstance(n, ast.Return)]
    ctx.check("C11.fold", rets[0] if rets else ar, len(rets) == 1 and norm(rets[0].value) == acc, "analyze_results does not return the accumulator", what="returns the accumulator", stmt="[return]")
    # the accumulator is written by nothing but merge
    others = [n for n in own_nodes(ar) if isinstance(n, ast.Attribute) and norm(n.value) == acc and n.attr != "merge"]
    ctx.check("C11.fold", ar, not others, f"analyze_results touches the accumulator other than by merge: {[norm(o) for o in others][:3]}", what="accumulator only merged", stmt="[only-merge]")
    # the fold keeps no state between calls: a memo keyed by object identity (id(result)) hands out the merged trace of dead
    # results once their addresses are reused
    fmod = repo.module(FM)
    module_state = {name for name, val in fmod.assigns.items() if isinstance(val, (ast.Dict, ast.List, ast.Set)) or (isinstance(val, ast.Call) and norm(val.func).split(".")[-1] in ("dict", "list", "set", "OrderedDict", "defaultdict", "WeakValueDictionary", "deque", "OrderedSet"))}
    touched = sorted({n.id for n in own_nodes(ar) if isinstance(n, ast.Name) and n.id in module_state})
    cached = [d for d in ar.decorator_list if "cache" in norm(d)]
    ctx.check("C11.fold", ar, not touched and not cached, f"analyze_results keeps merged traces between calls ({touched or [norm(d) for d in cached]}): a key made of object identities or of results that are later changed in place returns the trace of other executions - coverage of a suite is reported from tests it no longer contains, and adding a test can lower it", what="the fold keeps no state between calls", stmt="[stateless]")
    # tracer: fresh traces are seeded by merge of the import trace, never by aliasing it
    it = repo.func(TR, "ExecutionTracer.init_trace")
    ctx.analysed(it)
    alias = [n for n in own_nodes(it) if isinstance(n, ast.Assign) and norm(n.value) == "self._import_trace"]
    ctx.check("C11.fold", it, not alias and any(isinstance(n, ast.Call) and last_attr(n) == "merge" for n in own_nodes(it)), "init_trace aliases the import trace instead of merging it into a fresh trace: executions would accumulate into the shared import trace", what="init_trace copies the import trace by merge", stmt="[init_trace]")


def _merge_laws(ctx, repo) -> None:
    import copy

    from sa.checks.c07 import OSet
    from sa.engine import peval

    cls = repo.cls(TR, "ExecutionTrace")
    fn = repo.methods(cls).get("merge")
    if fn is None:
        raise AnalysisError("anchor vanished: ExecutionTrace.merge")
    ctx.analysed(fn)
    tmod = repo.module(TR)
    cres = peval.repo_class_resolver(repo, only={"ExecutionTrace", "ExecutedAssertion"})

    def interp():
        return peval.Interp(resolver=peval.repo_resolver(repo), class_resolver=cres, externs={"OrderedSet": OSet}, native_types=(OSet,))

    def assertion(it, pos, label):
        return it.instantiate("ExecutedAssertion", cres("ExecutedAssertion", tmod), [pos, label], {})

    def trace(it, spec):
        code, preds, td, fd, lines, instrs, asserts, checked = spec
        return it.instantiate("ExecutionTrace", cres("ExecutionTrace", tmod), [], {
            "executed_code_objects": OSet(code), "executed_predicates": dict(preds), "true_distances": dict(td), "false_distances": dict(fd), "covered_line_ids": OSet(lines),
            "executed_instructions": list(instrs), "object_addresses": OSet(), "executed_assertions": [assertion(it, p, l) for p, l in asserts], "checked_lines": OSet(checked)}, init=False)

    def snapshot(t):
        f = t.fields
        return (sorted(f["executed_code_objects"]), dict(f["executed_predicates"]), dict(f["true_distances"]), dict(f["false_distances"]), sorted(f["covered_line_ids"]),
                list(f["executed_instructions"]), [(a.fields["trace_position"], a.fields["assertion"]) for a in f["executed_assertions"]], sorted(f["checked_lines"]))

    A = ([], {}, {}, {}, [3], ["i0", "i1", "i2"], [(1, "a-assert")], [3])                                  # line-only style trace: no code objects recorded
    B = ([1], {0: 2}, {0: 0.0}, {0: 1.5}, [1, 2], ["j0", "j1"], [(0, "b-first"), (1, "b-second")], [1])
    C = ([1, 2], {0: 1, 1: 1}, {0: 4.0, 1: 0.0}, {0: 0.0, 1: 2.0}, [2, 5], ["k0"], [(0, "c-assert")], [5])
    specs = {"A": A, "B": B, "C": C}
    cov = (0, 1, 2, 3, 4, 7)
    try:
        # L1: the argument is left untouched (merging it a second time elsewhere must see the same trace)
        for x, y in (("A", "B"), ("B", "C"), ("C", "A")):
            it = interp()
            tx, ty = trace(it, specs[x]), trace(it, specs[y])
            before = snapshot(ty)
            tx.methods["merge"](ty)
            after = snapshot(ty)
            ctx.check("C11.laws", fn, before == after, f"[pure {x}.merge({y})]: the merged-in trace changed from {before[6]} / ... to {after[6]} / ...: traces cached in execution results are corrupted, every later evaluation of the suite shifts them again", what=f"[pure {x}.merge({y})]: argument unchanged", stmt=f"[pure {x}.merge({y})]")
            # L4: positions
            shift = len(specs[x][5])
            want = specs[x][6] + [(p + shift, l) for p, l in specs[y][6]]
            got = snapshot(tx)[6]
            ctx.check("C11.laws", fn, got == want, f"[positions {x}.merge({y})]: assertion positions after the merge are {got}, expected {want} (the other trace's positions shifted by the {shift} instructions already there)", what=f"[positions {x}.merge({y})]", stmt=f"[positions {x}.merge({y})]")
        # L2/L3: commutative and monotone on the coverage fields, whatever the receiver holds
        for x, y in (("A", "B"), ("B", "C"), ("A", "C")):
            it = interp()
            t1, t2 = trace(it, specs[x]), trace(it, specs[y])
            t1.methods["merge"](trace(it, specs[y]))
            t2.methods["merge"](trace(it, specs[x]))
            s1, s2 = snapshot(t1), snapshot(t2)
            same = all(s1[i] == s2[i] for i in cov)
            sx = snapshot(trace(it, specs[x]))
            grows = set(sx[0]) <= set(s1[0]) and set(sx[4]) <= set(s1[4]) and set(sx[7]) <= set(s1[7]) and all(s1[2].get(k, 9e9) <= v for k, v in sx[2].items()) and all(s1[3].get(k, 9e9) <= v for k, v in sx[3].items()) and all(s1[1].get(k, 0) >= v for k, v in sx[1].items())
            ctx.check("C11.laws", fn, same and grows, f"[commute {x},{y}]: {x}.merge({y}) gives {[s1[i] for i in cov]}, {y}.merge({x}) gives {[s2[i] for i in cov]}; nothing of {x} lost: {grows}", what=f"[commute {x},{y}]: order-independent and monotone", stmt=f"[commute {x},{y}]")
    except peval.Undecided as exc:
        ctx.undecide("C11.laws", fn, str(exc))
    except peval.Raises as exc:
        ctx.fail("C11.laws", fn, f"merge raises {exc.name} ({exc.detail[:60]}) on a representative trace", stmt="[merge raises]")
