"""CLI:  python -m sa.run C05 --tier quick|thorough [--repo PATH] | --replay FILE

exit 0  every obligation discharged or matched by a listed known finding
exit 1  VIOLATION line(s) printed (an unlisted finding)
exit 2  ANALYSIS-ERROR (anchor vanished, floor not met, parse failure, self-test miss)
"""

from __future__ import annotations

import argparse
import importlib
import json
import os
import sys
import time
import traceback
from pathlib import Path

sys.path.insert(0, str(Path(__file__).resolve().parents[1]))

from sa.engine.index import AnalysisError, Repo  # noqa: E402
from sa.engine.report import Ctx, finish, load_known  # noqa: E402


def run_property(prop: str, repo: Repo, tier: str) -> Ctx:
    mod = importlib.import_module(f"sa.checks.{prop.lower()}")
    ctx = Ctx(prop, repo, tier)
    mod.check(ctx)
    return ctx


def _selftest_one(args):
    prop, vname, root = args
    from sa.selftest.harness import run_variant

    try:
        return run_variant(prop, vname, root)
    except Exception as exc:  # noqa: BLE001
        return {"variant": vname, "ok": False, "error": f"{type(exc).__name__}: {exc}", "trace": traceback.format_exc()[-600:]}


def selftest(prop: str, root: str) -> dict:
    from sa.selftest.harness import variants_for

    names = variants_for(prop)
    if not names:
        return {"variants": 0, "detected": 0, "results": []}
    import multiprocessing as mp

    with mp.get_context("fork").Pool(min(16, len(names))) as pool:
        results = pool.map(_selftest_one, [(prop, n, root) for n in names])
    return {
        "variants": len(results),
        "detected": sum(1 for r in results if r.get("ok")),
        "results": results,
    }


def main(argv=None) -> int:
    ap = argparse.ArgumentParser()
    ap.add_argument("prop", nargs="?")
    ap.add_argument("--tier", default=os.environ.get("VERIF_TIER", "quick"), choices=["quick", "thorough"])
    ap.add_argument("--repo", default=os.environ.get("SA_REPO", "/repo"))
    ap.add_argument("--replay")
    ap.add_argument("--no-evidence", action="store_true")
    ns = ap.parse_args(argv)
    started = time.time()
    prop = ns.prop
    try:
        if ns.replay:
            data = json.loads(Path(ns.replay).read_text())
            prop = data["property"]
            repo = Repo(ns.repo)
            ctx = run_property(prop, repo, "quick")
            hits = [f for f in ctx.findings if f.key == data["key"]]
            if hits:
                f = hits[0]
                print(f"REPLAY reproduced: {f.rule} {f.file}:{f.line} {f.construct} :: {f.stmt} :: {f.message}")
                for step in f.path:
                    print(f"    via {step}")
                print(f"VIOLATION property={prop} replay={ns.replay}")
                return 1
            print(f"REPLAY: finding {data['key']} no longer reported on {ns.repo}")
            return 0
        if not prop:
            ap.error("property id required")
        repo = Repo(ns.repo)
        ctx = run_property(prop, repo, ns.tier)
        st = None
        if ns.tier == "thorough":
            st = selftest(prop, ns.repo)
            missed = [r for r in st["results"] if not r.get("ok")]
            if missed:
                for r in missed:
                    print(f"SELFTEST-MISS {prop} variant={r['variant']} {r.get('error') or r.get('detail')}")
                finish(ctx, started, st, write_evidence=not ns.no_evidence)
                print(f"ANALYSIS-ERROR property={prop} self-test: {len(missed)} break variant(s) not handled as expected")
                return 2
        return finish(ctx, started, st, write_evidence=not ns.no_evidence)
    except AnalysisError as exc:
        print(f"ANALYSIS-ERROR property={prop} {exc}")
        return 2
    except Exception:  # noqa: BLE001
        traceback.print_exc()
        print(f"ANALYSIS-ERROR property={prop} internal error in the checker")
        return 2


if __name__ == "__main__":
    sys.exit(main())
