"""Regenerates /verif/MANIFEST.json from the table below:  python -m sa.manifest"""

from __future__ import annotations

import json
from pathlib import Path

VERIF = Path(__file__).resolve().parents[1]

# property -> (technique, level text, level note, design ref)
CLAIMED: dict[str, tuple[str, str, str, str]] = {
    "C05": (
        "PAIR-FINALLY path query on a statement CFG with exceptional edges + who-may-write on the tracer flag",
        "Decides the full structural content of the property: every region that flips the tracer's enabled flag restores "
        "it on every exit (normal, exception, GeneratorExit at the yield); the flag has no other writer; the region "
        "constructors are only used as context managers; observer callbacks at statement boundaries run inside such a region. "
        "Checked on every function of src/pynguin on every run.",
        "Trusts python's ast, the CFG builder (sa/engine/cfg.py) and that `with` calls __exit__; does not execute pynguin. "
        "Behavioural statement follows because `enabled` has no other writer (also checked).",
        "DESIGN.md §3 C05",
    ),
}

CLAIMED.update(
    {
        "C17": (
            "MUST-PASS path queries on the statement CFG of every search loop + table/shape rules on counters and observer wiring",
            "Decides the iteration-boundary protocol: every generate_tests search loop tests self.resources_left() as a top-level "
            "conjunct, reaches after_search_iteration exactly once per iteration (through resolved self-method wrappers) and is "
            "dominated by before_search_start; resources_left is a universal quantifier over the list the factory assigns; the three "
            "counting conditions compare counter >= limit, increment only and unconditionally in their designated hook, reset at "
            "search start; the factory registers every condition as search observer and, when it observes execution, with the "
            "executor; executors notify observers before and after every execution; before_search_start (the counter reset) is a top-level statement, called once, and "
            "nothing before it is a call on or with the algorithm object (logging excepted), so no execution is forgotten by the reset. Wall-clock and memory conditions are not decided.",
            "Trusts the CFG builder and static MRO. Does not decide how many test executions happen inside one iteration.",
            "DESIGN.md §3 C17",
        ),
        "C34": (
            "ONCE dataflow (consumption counting with materialisation and isinstance refinement) on the CFG + shape rules for index normalisation and order-preserving construction + abstract interpretation of the ordered-set classes over operation x operand-kind against list-computed set semantics",
            "Decides three structural clauses of the ordered-set contract: every Iterable parameter (and every element of *others) of "
            "the ordered-set API is consumed at most once on any path unless materialised or proven re-iterable; __getitem__ normalises "
            "negative indices before the positional comparison; `_items` and derived sets are only built from order-preserving "
            "constructions and iteration goes over the backing dict; OrderedSet and FrozenOrderedSet, interpreted from source by the checker's evaluator, agree with the insertion-ordered-set "
            "semantics computed on plain lists for every operation (union, intersection, difference, symmetric difference, their operators and in-place forms, issubset, issuperset, add, "
            "discard, clear, ==, hash) x operand kind (list with duplicates, tuple, one-shot generator / iterator, builtin set, dict keys, ordered set, the set itself, empty, several "
            "operands), observed through iteration, len, membership, positive and negative indexing, IndexError and reversed(), with index reads before in-place changes. Hash/eq of exotic elements is not decided.",
            "Trusts the CFG builder and the classification tables of materialising / non-consuming calls in sa/engine/dataflow.py.",
            "DESIGN.md §3 C34",
        ),
    }
)

CLAIMED.update(
    {
        "C28": (
            "PAIR-FINALLY path query on the generator CFG (splice/restore), alias taint over every mutate_* visitor, sibling enumeration agreement, generator-exhaustion must-pass",
            "Decides the clauses 'never changes the original syntax tree' and 'reported count equals the full enumeration' at the level of "
            "code shape: the in-place splice in MutationOperator._generic_visit_list/_generic_visit_real_node is undone on every exit "
            "including GeneratorExit at the yield; none of the ~75 mutate_* visitors writes, deletes or calls a mutating method through its "
            "node parameter or an alias of a part of it; mutation_count, _select_mutations and _generate_all_mutations enumerate the same "
            "unfiltered expression over self.operators; regenerated operator generators are exhausted before the next mutation is applied; a position bound by enumerate(E) subscript-stores only into the list E "
            "enumerates (itself or a plain copy); a mutator class with its own mutate() has its own (or the generic) mutation_count - the inherited first-order count of HighOrderMutator is a known finding. "
            "That every mutant differs only at its mutated nodes, and sampling/reordering correctness, are value-level and not decided.",
            "Trusts the CFG builder; alias analysis is flow-insensitive within one visitor (names only).",
            "DESIGN.md §3 C28",
        ),
        "C19": (
            "FIELD-COMPLETE on statement rebuilds, must-pass path queries in the liveness pass and the writer, EXHAUSTIVE renderer arms, who-may-remove on statement.assertions",
            "Decides that no step on the post-processing / export path can drop an oracle by construction: every Statement rebuilt in TestCase "
            "(clone, append_test_case_from, remove_unused_variables) carries the assertions of the statement it replaces; unused-binding removal "
            "seeds the live set with the sources of the statement's own assertions before deciding; the writer reaches the assertion loop on "
            "every emission path and renders each assertion (only `is not None` filtering); assertion_to_cst has a non-None arm for every "
            "concrete Assertion class; statement.assertions is shrunk only inside assertion generation / minimisation. "
            "Whether a minimiser removes a whole asserted statement is C22's clause.",
            "Trusts the CFG builder; the allow-list of assertion removers is enumerated in sa/checks/c19.py with one reason each.",
            "DESIGN.md §3 C19",
        ),
    }
)

CLAIMED.update(
    {
        "C10": (
            "TYPE-MEMBER on declared dict[int,..] fields, sibling agreement (same helper / identical arguments / same fields read), zero-test shape, guarded denominators, GUARD-DOM of range assertions over cache writes",
            "Decides that the sibling computations of 'covered' agree by construction: no tuple-in-dict[int,...] membership (the always-false "
            "test that made the suite verdict disagree with a zero fitness); compute_fitness / compute_is_covered of every fitness function run "
            "the same execution helper, pass identical arguments to the paired metric functions and read the same trace fields; exclusion "
            "parameters guard the like-named distance map; every decision on a branch-distance value is an equality with 0.0; every division "
            "in the metric functions is guarded; every value written to the fitness / coverage cache is dominated by the finite/range assertion; "
            "normalise rejects negatives and maps inf to 1.0. Numerical equality fitness==0 <=> covered for arbitrary traces is not decided.",
            "Trusts declared annotations of ExecutionTrace and the CFG builder.",
            "DESIGN.md §3 C10",
        ),
        "C12": (
            "dirty-flag typestate: must-pass path queries (write -> changed=True; changed -> invalidate-all -> recompute -> clear), who-may-clear, MUST-USE of change-reporting results, key-guarantee path query in _check_cache",
            "Decides the dirty-flag discipline that makes cached values fresh: on a changed chromosome _check_cache clears every value map "
            "before recomputing and clears the flag only afterwards; invalidate_cache clears every *_cache attribute and clone copies every "
            "field; each cache getter is dominated by _check_cache for its key and every comp-free path through _check_cache has established "
            "`only in cache`; execution results are reused only when neither changed nor missing, stored before the flag is cleared, and the "
            "suite runner invalidates the test case's own cache; every writer of a chromosome's tests (suite methods, crossover, mutation "
            "operators) reaches changed=True; results of change-reporting operations are never discarded; only enumerated functions clear "
            "the flag; variation operators install another suite's test case chromosomes only as clones (no object shared between two suites). Other interleavings on shared objects are not decided.",
            "Trusts the CFG builder; the family of change-reporting operations is computed from `-> bool` annotations of TestFactory / TestCaseMutation.",
            "DESIGN.md §3 C12",
        ),
    }
)

CLAIMED.update(
    {
        "C13": (
            "WHO-MAY on the covered map, GUARD-DOM of the archive insert, truth-table evaluation of the replacement rule over its atoms, capacity path queries in MIOPopulation, goal-manager shape",
            "Decides the structural clauses 'covered only grows' and 'replaced only by a covering test that is error-free where the old one was not, or strictly "
            "shorter': CoverageArchive._covered is inserted into only by update and cleared only by reset (no caller on the search path); the insert is dominated by "
            "`covers and (best is None or _is_better_than_current(best, candidate))` with arguments in that order and the running best tracks the insert; "
            "_is_better_than_current (both archives) is evaluated over all 192 states of its atoms and must equal the rule of the property; MIOPopulation grows only "
            "under len<capacity or after a reset to one solution, never rewrites capacity/solutions of a covered population, and is_covered requires exactly one solution; "
            "the DynaMOSA goal manager carries over every uncovered goal. Whether an archived test still covers its goal when re-executed is not decided.",
            "Trusts the CFG builder and the boolean-formula extractor (sa/engine/prop.py); atoms of the replacement rule are interpreted by a table in sa/checks/c13.py.",
            "DESIGN.md §3 C13",
        ),
    }
)

CLAIMED.update(
    {
        "C08": (
            "interprocedural GUARD-DOM of goal registration by the AstInfo oracle (NNF edge formulas with an explicit bypass set), inclusive-interval convention rule on scope_line_range components, selection-order classification, source/flag table agreement; partition-representative evaluation of the exclusion oracle over a representative module",
            "Decides the clause 'no line, branch or code-object goal is registered without the exclusion oracle having admitted it': every register_line / "
            "register_predicate / register_code_object call is reachable only through an edge whose formula is a disjunction of the matching oracle literal and "
            "the two accepted bypass literals (ast_info is None, non-int lineno), in its own function or in every resolved caller (dispatch tables included); "
            "plus the shape clauses the oracle rests on: inclusive (start, end) at every range()/containment use of scope_line_range, outermost-first scope lookup, "
            "all exclusion sources unioned into no_cover_lines with each inline pattern gated by its own flag, ignore_methods feeding no_cover, no-cover before only-cover, "
            "universal quantification over enclosing definitions, one exclusion arm per enumerated compound-statement kind. "
            "In addition ModuleAstInfo / AstInfo are interpreted from source over a representative module (scopes nested to depth 3, decorated definitions, try / except / else / finally, for-else, while, "
            "if / elif / else, else followed by a single if, match): every scope is found under its qualified name and by the first line of its code object (first decorator), a marker excludes exactly its own "
            "line plus the block it heads, and a conditional jump on an excluded line is neither registered (every version) nor kept in the covered CDG. "
            "Arbitrary modules and the converse clause (every executable line outside excluded code is a goal) are not decided.",
            "Trusts the CFG builder, name-based call resolution restricted by the static class hierarchy, and sa/engine/peval.py (real ast nodes of the representative module are handed to the interpreted code).",
            "DESIGN.md §3 C08",
        ),
    }
)

CLAIMED.update(
    {
        "C11": (
            "FIELD-COMPLETE on ExecutionTrace.merge, join classification (union / sum / min-with-inf-default) of every coverage field with a MUST-PASS path query per field, sibling agreement of the recording-side minimum, fold shape of analyze_results",
            "Decides that merging is a commutative, associative, monotone join by construction: ExecutionTrace.merge reads every dataclass field; each coverage-relevant "
            "field (executed code objects, predicate counts, true/false distances, covered lines, checked lines) is combined on EVERY path through merge by its required "
            "join applied to the receiver's own container with the like-named container of the other trace - never replaced, never skipped under a condition; the minimum "
            "rule reads the accumulator with an inf default under the same mapping and key it writes, on the merge side and on the recording side; analyze_results folds "
            "every result into a fresh trace with merge only; init_trace copies the import trace instead of aliasing it. Monotonicity of the fitness formulas over the merged "
            "trace (value-level) is not decided.",
            "Trusts the CFG builder; join classes are recognised syntactically (update / get(k,0)+v / min(get(k,inf),v)); any other combiner is reported.",
            "DESIGN.md §3 C11",
        ),
    }
)

CLAIMED.update(
    {
        "C18": (
            "name-use/import agreement: sticky-flag typestate of needs_pytest with a trigger table computed from the renderers that emit `pytest`, element-order rule on every cst.Module body, exclusion-set rule on exception imports, sibling agreement of the re-execution namespace, independent-guard rule on removal of non-holding assertions, interpretation of the public-name helper, accumulator rule",
            "Decides the clause 'no test fails because of names that are not imported' at the level of code shape: needs_pytest is only ever raised inside the per-test loop and "
            "has a trigger for every template that renders `pytest` (exceptions, and every assertion class whose renderer transitively builds a pytest name - computed from "
            "assertion_to_ast); `import pytest` is emitted iff the flag is set (unseeded) or always (seeded); both module bodies list sys/module/alias, random/pytest and the "
            "SUT / exception imports before their users; every exception named in pytest.raises is recorded and imported unless builtin (no other exclusion); the re-execution "
            "namespace binds the names of the rendered from-import through one shared helper; assertions that failed and assertions that raised when replayed are both removed, "
            "each under its own membership test only; _public_sut_names, interpreted over a representative module, lists every public attribute (imported names included) but the alias, sorted; "
            "the exception types to import are accumulated over all test cases (the accumulator is never rebound in the loop); the writer's collector of enum classes (found by behaviour), "
            "interpreted over members bare and nested in list / tuple / set / dict keys and values, yields every class the rendering names, is applied to the asserted value of every assertion of "
            "every statement of every test case, and feeds the emitted from-imports with no exclusion by name prefix. That the emitted tests pass, and validity of rendered values (C20), are not decided.",
            "Trusts python's ast; the list-building idioms (list display, append/extend) of TestSuiteWriter.write are interpreted syntactically.",
            "DESIGN.md §3 C18",
        ),
    }
)

CLAIMED.update(
    {
        "C22": (
            "GUARD-DOM of every removal by all(map(isclose, A, B)) with provenance of A (fixed before the loops, from the original) and B (from a clone after the same removal), protected-variable skip as a dominating guard, sticky-flag rule on fixed-point loops, in-place-change -> invalidate must-pass, who-may-add, snapshot/restore dominance in _minimize",
            "Decides that no coverage-based minimiser can apply a removal whose effect it did not measure: every removal on the original (statement-level in Forward/Backward/Combined, "
            "test-level in the suite visitor) is dominated by the true edge of all(map(isclose, reference, candidate)), the reference computed once before the loops from the unmodified "
            "object and the candidate from a clone that underwent the same removal at the same index in the same iteration; statement-level removers skip variables in "
            "get_assertion_protected_variables of the same test case, whose backward closure is a genuine fixed point (flag only raised inside a scan); a test case changed in place while "
            "its chromosome stays alive is followed by invalidation before the next coverage computation; no visitor adds or replaces statements; _minimize snapshots before and restores "
            "(and marks changed) when _check_coverage = all(map(isclose, ...)) is false - locals identified by role: the suite is marked changed on every path from a coverage-guarded minimiser to the "
            "coverages it is judged by, no minimiser runs after them, no coverage query takes the whole collection of functions; _directly_asserted_variables, interpreted over representative "
            "test cases, returns the root variable of every reference assertion of every statement (bound or not). Whole-test removal by the SUITE strategy is outside the protected-variable rule (it deletes a test "
            "together with its assertions by design). Equality of coverage values after minimisation is not decided.",
            "Trusts the CFG builder; clone-derived names are tracked by a flow-insensitive closure over assignments.",
            "DESIGN.md §3 C22",
        ),
    }
)

CLAIMED.update(
    {
        "C27": (
            "GUARD-DOM of cluster registration by add_to_test / visibility / ignore-list / defining-class tests (NNF edge formulas), argument-provenance rule on add_to_test, interpreted visibility table, cached-reader freshness rule, positive-owner formula rule",
            "Decides the gatekeeping of the test cluster: every add_accessible_object_under_test call of the analysis is under `add_to_test`, which at each entry is "
            "`<analysed element>.__module__ == root_module_name` and is forwarded unchanged to the method analysis; registration of functions and methods is dominated by the "
            "visibility test on the unqualified name - __should_skip_by_visibility is interpreted over names x visibility x add_to_test x (function | method of real classes, whose mangled "
            "attribute names come from Python itself) against the naming rules (ALL nothing, PROTECTED private+mangled-by-the-MRO, PUBLIC private+protected; dependencies always "
            "private+protected); a callable renamed before registration (a lambda's assigned name) passed the test under the new name; the method analysis hands the class to the test -, by the "
            "ignore lists (work lists filtered by _is_blacklisted, methods by the ignore-list test, blacklisted modules skipped) read from the configuration at call time with no "
            "memoised reader, and - for methods - by the defining-class test, whose formula is true only when the defining class was positively resolved to the analysed class. "
            "Which members inspect enumerates for arbitrary modules (the 'exactly' direction) is not decided.",
            "Trusts the CFG builder; name-mangled module-level helpers (__analyse_*) are resolved by their source names.",
            "DESIGN.md §3 C27",
        ),
    }
)

CLAIMED.update(
    {
        "C29": (
            "GUARD-DOM before the wrapped call (foreign-path test on every recorded name, with same-condition correlation), created-membership dominance for destructive calls, patch-table classification, exit ordering path query, who-may-patch registration, abstract interpretation of the wrappers over calling conventions against python's own argument binding and of path normalisation across a chdir",
            "Decides the bookkeeping discipline that makes pre-existing paths safe: in every tracked wrapper each name handed to _record_created was, on every path to the wrapped "
            "call, tested by _is_foreign (refused, or rebound to None) and is not rebound afterwards; destructive wrappers reach the wrapped call only after the created-membership "
            "test; overwriting calls and write-mode opens of foreign paths are refused under exactly the condition under which the path is later recorded; the patch table gives every "
            "destructive entry forget_arg_idx, every overwriting entry overwrites=True and every copying entry record_dst_idx; __exit__ closes the exit stack before the cleanup loop, "
            "deletes only elements of _created through the loop variable and clears the set; every patch is entered on the exit stack; _is_foreign is `exists and not created` with "
            "only the isolation's own temporary directory exempt; the tracked wrappers, interpreted around stubs that carry the signatures of the real os / shutil / pathlib callables, test, "
            "record and forget exactly the values python binds to the path parameters for positional, keyword and mixed calls, and the table's indices name the src / dst / path parameters of "
            "those signatures; _abspath of a relative name follows the working directory across a chdir with the memoisation of helpers modelled; _is_write_mode, interpreted over every mode string open() accepts "
            "(r/w/a/x, +, b/t in any order), answers write exactly for the modes that can change or create the file. File-system effects through APIs that are not "
            "in the patch table (os.symlink, os.link, os.truncate, dir_fd-relative calls inside shutil.rmtree) are not decided.",
            "Trusts the CFG builder; correlation between the refuse-condition and the record-condition is by identical conjunct text over names that are not reassigned.",
            "DESIGN.md §3 C29",
        ),
    }
)

CLAIMED.update(
    {
        "C33": (
            "escape analysis + close-after-start must-pass on the pipe's sending end, must-pass/guard path queries in _restart, partition-representative evaluation of the budget adjustment, recursion guard in get_result, result-code table agreement between master, worker and client",
            "Decides the structural clauses of 'never hangs, restarts bounded, success only if a worker delivered': the master's copy of the one-way pipe's sending end is closed "
            "after process.start() on every path and never escapes (so a dead worker yields EOF); every path of _restart to _start_worker passes the adjustment by the crashed worker's "
            "elapsed time and the `maximum_search_time <= 0` abort, in that order; the adjustment, evaluated by the checker's own evaluator over a boundary partition of (budget, elapsed) "
            "including sub-second elapsed times, yields an int in [0, old budget) for every positive budget and leaves non-positive budgets untouched; get_result turns any receive "
            "failure into the restart path, recurses only after a successful restart and otherwise returns ERROR; recv() on the result pipe is reached only after poll() reported data, "
            "and the wait is a poll(timeout) loop that ends when the worker process is no longer alive (EOF can be withheld by a process the worker forked); the master only builds ERROR/None results, the worker reports "
            "run_pynguin()'s own code on the normal path only, the client has an arm for every WorkerReturnCode and no literal success. Wall-clock bounds are not decided.",
            "Trusts the CFG builder and the evaluator sa/engine/peval.py (arithmetic, max/min/int/round/floor, comparisons, if/assign/return).",
            "DESIGN.md §3 C33",
        ),
    }
)

CLAIMED.update(
    {
        "C04": (
            "operator/helper table agreement, EXHAUSTIVE complement table per compare kind, argument-binding rule, one-zero path queries, and abstract interpretation of executed_compare_predicate / executed_exception_match by the checker's own evaluator over a partition of operand pairs with Python's operators as oracle",
            "Decides the table clauses completely (each helper is zero only under its own operator on (val1, val2); every compare kind has the complement pair of the table; every "
            "_update_metrics call binds like-named parameters; bool and exception-match predicates reassign exactly one distance to a non-zero value on every path; the recorder "
            "asserts non-negativity and exactly-one-zero) and the numeric clauses over a finite partition: for ~45 representative operand pairs per compare kind (ordered, equal, signed "
            "zero, NaN, infinities, ints beyond float range, ints closer than the float resolution, bool/int, str, bytes that are not UTF-8, partially ordered sets, mixed types, tuples) "
            "and 9 exception/clause shapes, the source of executed_compare_predicate and of every helper it calls is interpreted by sa/engine/peval.py and must yield distances that are "
            "numbers >= 0, not NaN, exactly one zero, the zero one being what Python's operator returns for that pair, raising only where the operator itself raises. Pynguin is never "
            "imported or run. Behaviour inside a partition cell is assumed uniform; string-distance magnitudes and user classes with partial protocols are not decided.",
            "Trusts sa/engine/peval.py (a restricted interpreter of the statement kinds used by the helpers), Python's float/int semantics on the representatives, and the CFG builder.",
            "DESIGN.md §3 C04",
        ),
    }
)

CLAIMED.update(
    {
        "C20": (
            "abstract interpretation of the assertion renderers by the checker's own evaluator over a partition of floats and assertable values, libcst constructors kept symbolic with libcst's token-validity rules re-implemented, rendered text evaluated against the observed value; dispatch-order and table-agreement rules",
            "Decides 'rendering never fails, produces valid Python, and the rendered value equals the observed one' on a finite partition: _make_float_literal over 18 float representatives "
            "(signed zero, subnormals, huge, integral, inf, -inf, nan) and _value_to_cst over ~38 assertable values (None, bools, ints incl. negative and > 64 bit, str/bytes with quotes, "
            "escapes and non-ASCII, complex incl. signed-zero / inf / nan components, members of Enum, StrEnum with overridden __str__, IntEnum, Flag, nested and empty "
            "lists/tuples/sets/dicts) are interpreted from source; every Float/Integer/SimpleString/Name token must satisfy libcst's validation, the text must compile and must "
            "evaluate to a value for which the emitted assertion holds. Each reference-assertion renderer must yield a parseable `assert`. Dispatch: bool before int, enum before "
            "str/int; every type admitted by is_assertable and every assertion class the trace observer creates has a renderer arm; is_assertable, interpreted over adversarial containers "
            "(non-assertable keys / elements nested anywhere), admits nothing that does not render to an equal literal; every recorded ObjectAssertion holds a deep copy of the value. Behaviour inside a partition cell is assumed "
            "uniform; `x == pytest.approx(nan)` and resolution of enum class names in the exported namespace are not decided.",
            "Trusts sa/engine/peval.py and sa/engine/cstterm.py (token regexes, source rendering of the node shapes used by the renderers).",
            "DESIGN.md §3 C20",
        ),
        "C23": (
            "abstract interpretation of literal_to_cst / parse_literal / ml_value_to_cst over a value partition with symbolic libcst terms (render -> validate tokens -> evaluate; render -> parse), dispatch-table agreement, bool-before-int order, no-memoisation rule on value renderers",
            "Decides the round-trip clause on a finite partition: for 17 float representatives, 17 primitives (bool, small/huge/negative ints, str and bytes with quotes/escapes/NUL, complex "
            "with signed-zero / inf / nan components) and 10 collections, literal_to_cst interpreted from source yields valid tokens whose text evaluates to the same value (type, sign of "
            "zero, inf, nan), and parse_literal applied to the very term the renderer built returns the value (the parser accepts exactly the shapes the renderer emits); the ML twin "
            "ml_value_to_cst agrees on the numeric partition; generate / mutate / parse / render dispatch over the same primitive types with bool before int; no renderer is memoised; "
            "generate_literal, interpreted for the 11 requested types under configurations with maximum sizes 0 / 1 / default and scripted lowest / highest / seeded draws (randrange with "
            "its empty-range error modelled), yields without raising valid tokens that evaluate to a value of the requested type within the configured size; MLTestFactory._mutated_ml_expr, interpreted for tuple / list / nested ndarray payloads, scalars and allowed values with the numeric mutation stubbed, renders a literal "
            "that evaluates to the mutated value in the structure the statement is bound to. Mutation draws are not decided.",
            "Trusts sa/engine/peval.py and sa/engine/cstterm.py.",
            "DESIGN.md §3 C23",
        ),
    }
)

CLAIMED.update(
    {
        "C14": (
            "abstract interpretation of the ranking / selection operators by the checker's own evaluator over finite partitions (point grids, all sequences of <= 4 individuals, bias x random x length grids) with Pareto dominance and range/monotonicity oracles; guard and must-pass path queries on the front construction",
            "Decides the operator contracts on finite partitions, interpreting the source with opaque representative chromosomes: DominanceComparator.compare equals Pareto dominance on all "
            "36 ordered pairs of a point grid (and None operands); _get_non_dominated_solutions returns exactly the non-dominated individuals, each ranked with the front index, for all 780 "
            "sequences of up to 4 individuals over 5 points (ties, duplicates, every order); _get_zero_front holds for every goal an individual of minimal fitness, shortest among ties, for "
            "both outcomes of the tie coin; fast_epsilon_dominance_assignment leaves every distance in [0, 1) for fronts of 1-4 members whatever the previous distance; "
            "RankSelection.get_index is an int in [0, len), non-decreasing in the random value and with the median in the better half, for 9 biases of [1.0, 2.0] x 9 random values "
            "(incl. 0, the smallest subnormal and 1-2^-53) x 5 population sizes. Shape: the front scan leaves its inner loop only when the candidate is dominated; every front is removed "
            "from the remaining individuals before the next is computed from them. Uniformity inside a cell is assumed; the exact selection distribution is not decided.",
            "Trusts sa/engine/peval.py and the representative-object model (fitness vector, length, rank, distance).",
            "DESIGN.md §3 C14",
        ),
    }
)

CLAIMED.update(
    {
        "C21": (
            "abstract interpretation of the mutation summary, score and greedy set-cover selection over exhaustive small domains, sibling agreement on the violation predicate, zip-alignment rule on execute_multiple results, removal-condition shape rules",
            "Decides the score and kill-preservation clauses on exhaustive small domains, interpreting the source: survived / killed / timeout partition the mutants for all 64 state vectors "
            "of 3 mutants and the metrics count exactly those; get_score equals killed / (created - timeout), lies in [0, 1] and is 1.0 for an empty divisor for every count triple up to 4 "
            "mutants; _select_minimal_assertions, for all 512 kill maps over 3 assertions x 3 mutants, keeps only assertions with a non-empty kill set whose union equals the union of the "
            "full set (minimisation preserves every kill). Shape: was_violated is failed-or-error (4 cases) and every reader of a verification trace in the mutation analysis counts both kinds; "
            "results of execute_multiple(L) are zipped strictly with L itself; minimisation removes an assertion iff its key is not kept, and kill map and removal skip the same "
            "exception-only statements; __remove_non_holding_assertions, interpreted over every disjoint combination of failed / erroring positions of a statement, removes exactly the "
            "flagged assertions. Whether the verification run observes every violation (SUT flakiness) is not decided.",
            "Trusts sa/engine/peval.py; mutant and trace objects are modelled as field bags.",
            "DESIGN.md §3 C21",
        ),
    }
)

CLAIMED.update(
    {
        "C25": (
            "abstract interpretation of is_subtype / is_maybe_subtype / subtype_distance and their visitor classes (instantiated and dispatched by the checker's evaluator) over a finite type universe on a model class graph; algebraic laws checked on the resulting relation matrices; shape rules on the Any test and the visitor overrides",
            "Decides the subtyping laws on a finite universe: the three queries and the visitor classes they construct are interpreted from source over 33 proper types (plain instances "
            "over a diamond hierarchy, an unrelated class and the numeric tower; hard-coded generics; tuples of arity 1-3; unions with instance, None and tuple members; Any; None) and a "
            "model type graph, giving 3 x 1089 answers. Checked on them: reflexivity, transitivity of all closing chains without Any, everything below Any, union subtype iff all members "
            "(maybe: some member), instance subsumption == subclass relation of the model, strict implies maybe, a distance is defined only towards a maybe-subtype, distance 0 to itself. "
            "Findings are grouped by law and type-shape signature; the two signatures that fail on the unchanged tree and are pinned by the existing tests are listed as known findings. "
            "Shape: Any is tested first; the maybe visitor differs from the strict one only in the union arm (any vs all). A non-union type is a subtype of a union exactly when it is one of some member "
            "- strictly for is_subtype, leniently for is_maybe_subtype, with unions nested in tuples in the universe; the inheritance graph gets its edges from each analysed class's own `__bases__` "
            "(never an inheritable attribute such as __orig_bases__ read through getattr), in the direction base -> class. Uniformity across types of the same shape is assumed.",
            "Trusts sa/engine/peval.py (class instantiation, method dispatch, isinstance on representatives) and the model graph of sa/checks/_typemodel.py.",
            "DESIGN.md §3 C25",
        ),
        "C26": (
            "the same interpreted relation matrices compared between the two generator providers (offer predicates extracted from their source), plus cache-coherence shape rules: who-clears-what set equality on lru_cache'd methods, must-pass of invalidation after graph / generator writes",
            "Decides on the finite type universe that every (requested, generated) pair the rank-based provider offers (subtype_distance defined) and the random provider offers "
            "(is_maybe_subtype) is a maybe-subtype pair and that the two providers offer the same pairs, with the offer predicates and their argument order read from the providers' "
            "source; the disagreements present on the unchanged tree (primitive requests, tuple/None requests vs Any, covariant generics) are listed as known findings by shape signature, "
            "any other signature is reported. Cache coherence by code shape: every lru_cache'd TypeSystem method is cleared by _clear_query_caches and every writer of graph edges reaches "
            "it; clear_generator_cache clears every memoised method of GeneratorProvider and its subclasses; update_return_type accompanies a generator move by clear_generator_cache() "
            "and get_all_generatable_types.cache_clear(); where a caller updates in place a collection that a provider accessor handed out (and does nothing else with it), the accessor returns "
            "the stored bucket itself, not a copy. Which generator is finally selected is not decided.",
            "Trusts sa/engine/peval.py, the model graph, and the CFG builder.",
            "DESIGN.md §3 C26",
        ),
    }
)

CLAIMED.update(
    {
        "C15": (
            "who-may-write on the private representation of TestCase/Statement, must-pass path queries (statement-list write -> registry update and code-cache drop), cache-copy provenance rule, binding provenance rule, freshness of the size read by the crossover length guard",
            "Decides the representation-invariant discipline behind 'every test case stays well-formed': _statements, _type_registry, _var_counter, _code_cache and the per-statement "
            "read-set cache are written only inside testcase/testcase.py; every TestCase method that changes the statement list reaches the registry update and drops the code cache on "
            "every path; a statement's cached read set is copied only to a statement built with the same node object (never across a renaming); statements built inside TestCase bind a "
            "fresh next_var_name(), the binding of the statement they replace, or nothing, and clone carries the name counter over; crossover installs its offspring only under "
            "`offspring.size() < chromosome_length` evaluated after the offspring's last change, and the insertion loops re-test the size before every insertion; _find_variable_of_type, interpreted over representative test cases for every position, offers exactly "
            "the matching variables bound before the position, and the test factory never consults the whole-test-case type registry. "
            "Def-before-use after arbitrary operator histories (cursor arithmetic of the recursive statement emitters) is not decided.",
            "Trusts the CFG builder; receivers are matched by name (the private fields of unrelated classes written through `self` are ignored).",
            "DESIGN.md §3 C15",
        ),
    }
)

CLAIMED.update(
    {
        "C16": (
            "who-may-call on entropy sources, and a set-typed-expression analysis (annotations, displays, constructors, set algebra, dicts of sets, set-returning functions) that finds every construct making the iteration order of a hashed set observable, with order-insensitive consumers recognised and the remaining sites frozen in a per-site triage table",
            "Decides absence of the static sources of run-to-run variation on the generation path: calls into the global random module, Random() construction, os.urandom, uuid, "
            "secrets and numpy.random occur only in the seeded-RNG module and the enumerated seeding / isolation functions; pynguin's generator is seeded in "
            "_setup_random_number_generator (called by _setup_and_check) and nowhere else; every construct that makes the iteration order of a hashed set observable (for, list / generator "
            "/ dict comprehension, list(), tuple(), OrderedSet(), join(), pop(), next/iter/enumerate/zip, star-unpacking) over an expression typed as a set (annotation, inference, "
            "isinstance / is_set narrowing, nx.ancestors / nx.descendants) is order-insensitive by "
            "construction (set-building loop bodies, sorted/len/any/all/min/max/sum consumers, set updates), or is one of 15 sites read individually and frozen with a reason; hash() values only feed __hash__ or a cached hash attribute; one site "
            "(ML default dtype list, pinned by a test) is a known finding. LLM / refinement modules are off the path. Determinism of the SUT, of namespace dict orders and of thread "
            "timing is not decided.",
            "Set typing is syntactic (annotations and local inference), not a type checker: a set that reaches a consumer through an unannotated attribute or a third-party call is not seen.",
            "DESIGN.md §3 C16",
        ),
    }
)

CLAIMED.update(
    {
        "C35": (
            "table agreement between the report builder and the metric functions (same trace, same dictionaries, same factors), abstract interpretation of the per-line annotation helper and the entry additions over all membership combinations, no-memoisation rule on the report path",
            "Decides the wiring that makes the report agree with the tracked coverage: the branch and branch-less totals are sums over the values of the very per-line dictionaries from "
            "which the annotations are built (one annotation per source line); the per-line helper, interpreted for all 4 membership combinations of a line, yields the code-object entry, "
            "the predicate entry and their sum; CoverageEntry / LineAnnotation addition is component-wise and only for the same line; branch_coverage / line_coverage are "
            "compute_branch_coverage / compute_line_coverage on analyze_results of the last result of every test case; per predicate 2 existing branches and one covered per zero "
            "distance VALUE (items membership), per branch-less code object 1 existing, covered iff executed - the factors compute_branch_coverage uses; the source is read from the "
            "configured module at report time and nothing in the report module is memoised; the Cobertura totals add both branch kinds, and the XML renderer, interpreted with ElementTree modelled over 8 "
            "kinds of lines, lists a line iff it carries anything and gives hits=1 exactly when the suite covers something of it; in both chromosome runners storing a fresh execution result clears "
            "the changed flag on every path, so all coverage functions and the report read the same executions. Agreement of line ids with line numbers when "
            "several code objects share a source line is not decided.",
            "Trusts sa/engine/peval.py (dataclass instantiation, operator dispatch) and python's ast.",
            "DESIGN.md §3 C35",
        ),
    }
)

CLAIMED.update(
    {
        "C30": (
            "save/restore symmetry rules on the execution-path context managers (value provenance of every restoring write, condition set of restoring writes, finally / __exit__ coverage), dominance of the reseeding hook over statement execution, exclusion of Pynguin's own generator",
            "Decides the structural clauses of 'process state is as before after every execution': in OutputSuppressionContext the value written back for file descriptors 0-2 and for the "
            "logging threshold originates from a read made in __enter__, restoring writes are guarded only by the idempotence flag / `saved is not None` (never by what the executed code "
            "left behind), __exit__ calls restore() unconditionally, the executor restores on its timeout path, statements run inside `with FilesystemIsolation(), output suppression, "
            "tracer`; __enter__, interpreted with the shared /dev/null sink usable, closed and detached by an earlier test case, returns normally with both streams on one usable sink that is "
            "(again) the shared one; __enter__ -> a test case that rebinds stdin / stdout / stderr, raises the logging threshold and the root level and closes fds 0-2 -> restore(), interpreted "
            "over a model of the process state, leaves every one of these facets as before; suppress_logging restores the previous threshold in a finally; _make_deterministic "
            "reseeds with the configured seed, excludes randomness.RNG, is the first action of the before-hook, and that hook dominates every executed statement (so a timed-out test "
            "cannot leave consumed random state to its successor). The streams are restored to sys.__stdout__/__stderr__ instead of the saved objects: known finding pinned by the "
            "existing tests. Hidden state inside the module under test is not decided.",
            "Trusts the CFG builder and python's ast.",
            "DESIGN.md §3 C30",
        ),
    }
)

CLAIMED.update(
    {
        "C32": (
            "who-may-write typestate on the execution trace (every writer behind the thread-ownership check, every mutation through the thread-local state), handler-order rule on exec paths, bounded-join and fresh-result shape rules in the executor",
            "Decides the mechanism that keeps an abandoned execution from polluting later results: every ExecutionTracer method that mutates the trace is wrapped by _early_return or "
            "calls self.check() before its first write, undecorated private writers are reachable only from such methods and not from outside the class; the wrapper returns when disabled, "
            "then calls check(), which raises TracingAbortedException exactly when the current thread is not the recorded owner; __enter__ records and stop() revokes ownership - and the four methods, interpreted over schedules of two execution threads and the executor, abort exactly the threads that do not own the tracer, "
            "an abandoned thread that unwinds later never revoking the ownership of the thread that runs by then; an executor that runs a test case twice per call (type tracing) reaches the "
            "second run only where `not <first result>.timeout` is established; every "
            "trace mutation goes through self._thread_local_state.trace of a threading.local subclass and no plain attribute of the tracer holds the current trace; on every exec path a "
            "TracingAbortedException handler that re-raises or records the abort precedes any BaseException / bare handler; the executor joins its daemon thread with timeouts that are "
            "the configured maximum or a min() containing it and, interpreted for test cases of size 0, 1, 3 and 1000, positive (thread and subprocess executors), stops the tracer when the thread is still alive, answers with a fresh ExecutionResult(timeout=True) and uses a fresh result "
            "queue per execution. The wall-clock bound and code that reaches no instrumentation point are not decided.",
            "Trusts python's ast and name-based recognition of trace mutators.",
            "DESIGN.md §3 C32",
        ),
    }
)

CLAIMED.update(
    {
        "C31": (
            "protocol agreement by table rules: name/position agreement of positional arguments across the process boundary, sent-tuple vs unpacked-names roles, getter/setter key sets, FIELD-COMPLETE sanitiser per result field, and abstract interpretation of assertion.clone under identity memos",
            "Decides the protocol clauses that make the subprocess executor a faithful relay: every positional argument named like a parameter of its callee sits at that parameter's "
            "position (process args -> _execute_test_cases_in_subprocess, the inner TestCaseExecutor(...), the super().__init__ call), so the child uses the parent's timeouts, observers "
            "and bindings; the 5-tuple the child sends and the names the parent unpacks agree in length and role, the RNG state sent is installed, results are zipped strictly with the old "
            "and new bindings, the child's tracer state is installed; the tracer state getter and setter use the same keys; _fix_result_for_pickle has a filter and a clear handler for "
            "every ExecutionResult field that can carry SUT objects (plain int/bool fields exempt by annotation); interpreting clone() of all five reference-assertion classes for 3 sources "
            "(plain, one and two attribute levels) x 3 identity/empty memos shows source and payload unchanged; every attribute of TestCaseExecutor that a setter can change after construction "
            "and that the execution path reads (observers, remote observers, the instrument flag) is handed to the child by _setup_subprocess_execution, and the child uses every parameter it "
            "receives; _fix_assertion_trace, interpreted over a trace with assertions at binding and non-binding positions, re-adds every assertion at its position with its source renamed "
            "through the bindings. Equality of the two executions themselves is not decided.",
            "Trusts sa/engine/peval.py (class instantiation incl. super()), python's ast.",
            "DESIGN.md §3 C31",
        ),
    }
)

CLAIMED.update(
    {
        "C24": (
            "writer/reader agreement: the exporter's assertion renderer and the seed parser's assertion lifter are both interpreted from source over one representative per emitted assert shape and composed (render -> lift -> render); filter-set rule on the parser's per-function loop; handler presence for the exporter's import idiom",
            "Decides the assertion half of the round trip and the function-level filters: for 14 representatives (object assertions with int / None / True / nested / str / complex values, float, "
            "type-name, isinstance on a builtin, a module-level and a nested SUT class, collection length, and attribute-path sources) assertion_to_cst and parse_assertion are interpreted "
            "from source with symbolic libcst terms; the lifted assertion must render to the same text. Nine shapes round-trip; the five that the parser cannot lift on the unchanged tree "
            "(pytest.approx, the type-name f-string, complex(...), attribute-path receivers for == and len) are known findings, any other failing shape is reported. The seed parser's "
            "per-function filter must consist of the FunctionDef test and the name-prefix test only (the exporter emits decorated xfail tests named test_<idx>), and the normaliser must "
            "handle the exporter's import idiom; every CST visitor of the deserializer that treats Names as variable references (collectors, the SUT-reference normaliser, the local renamer) "
            "exempts the keyword of call arguments and the attribute name of attribute accesses, as its siblings do (cross-check of implementations walking the same trees); a parsed function is "
            "kept iff it has statements (a tally of dispositions must name every ADMITTED* member); the parser's arm for expression statements refuses none, since the exporter demotes any unused "
            "assignment to a bare expression. Round trip of "
            "ordinary statements against a test cluster is not decided.",
            "Trusts sa/engine/peval.py, sa/engine/cstterm.py and the modelling of cst.parse_expression / code generation for names, attribute chains and literals.",
            "DESIGN.md §3 C24",
        ),
    }
)

CLAIMED.update(
    {
        "C01": (
            "abstract interpretation of the instruction generators (interpreted from source) on a symbolic operand stack per splice site; opcode whitelist; partition-representative evaluation of BasicBlockNode's index providers and of the tracer / seeding callbacks over adversarial representatives; index-origin dataflow for splice positions",
            "Decides the structural clauses, for the adapters of all five supported interpreter versions: every template spliced into a code object (setup + optional overridden instruction + tracer call + teardown, "
            "obtained by interpreting generate_setup/teardown/method_call instructions from source) leaves the symbolic operand stack as the uninstrumented instruction does, reads nothing below the operands available at "
            "the site (per-opcode table / per-site table), hands an overridden instruction its operands in order and the tracer only copies of operands; the sequences contain no opcode that applies an operator to values "
            "of the module under test; on 3.12+ no unchecked LOAD_FAST is emitted and a variable that an inlined comprehension saves or restores is not read; the indexes BasicBlockNode hands out address the instruction "
            "in the basic block for blocks with pseudo-instructions, and positions counted over instructions reach a splice only through block_index_of (or are -1); the compare / bool / attribute callbacks and the "
            "seeding entry points, interpreted over adversarial representatives (partial comparison protocols, raising __ne__/__eq__/__len__/property, huge ints, NaN, non-UTF-8 bytes, one-shot iterators, non-string "
            "receivers, tuples of prefixes), raise nothing, consume no iterator and call no method of the value; extract_name and visit_jump handle every argument shape they are dispatched for. "
            "Not decided: equality of results and side effects for arbitrary programs; that adapters compose; that the mirrored and the complementary comparison still run user operators (contained, not removed).",
            "Trusts the opcode semantics table of sa/checks/_instr.py (stack effect of ~25 opcodes, operand counts of ~35 opcodes), the per-site operand table in sa/checks/c01.py, and sa/engine/peval.py.",
            "DESIGN.md §3 C01",
        ),
    }
)

CLAIMED.update(
    {
        "C03": (
            "table agreement between the tracer callbacks (interpreted from source to find what their true outcome means), get_branch_type and the CFG edge labelling, per version and conditional-jump opcode; set equality of the opcode tables; symbolic stack for operand order; must-call and pair-finally rules",
            "Decides the agreement clauses: for every supported version and every opcode in COND_BRANCH_NAMES, the outcome the tracer records as true (bool / compare-with-None / exception-match callbacks interpreted over "
            "complementary inputs, for-loop constants read from the visitors) is the CFG edge labelled True (get_branch_type arms + the labelling in CFG._create_nodes_and_edges), given when the opcode jumps; the opcodes "
            "with a branch type are exactly COND_BRANCH_NAMES and the none-based mapping covers the none-based jumps; predicate callbacks receive (left, right) / (exception, match type) / the tested value; every "
            "predicate visitor registers its predicate, visit_node dispatches to all of them, ends in the bool-based visitor and returns early only for jump-less blocks, excluded code and unconditional jumps; "
            "both outcomes of every predicate are goals, BranchGoal.is_covered reads the distance map of its own outcome, given_exception_matches agrees with `except` for classes, tuples and nested tuples; "
            "temporarily_disable/enable restore the tracing state in a finally and the callbacks compute under temporarily_disable; reset() leaves a recording trace that holds nothing recorded before, init_trace / store_import_trace start from the import trace only. "
            "Not decided: that the predicate's basic block executes once per evaluation, short-circuit structure, exception edges, the bytecode library's is_cond_jump().",
            "Trusts the jump table JUMPS_WHEN (when each conditional-jump opcode jumps, from the dis documentation), sa/checks/_instr.py and sa/engine/peval.py.",
            "DESIGN.md §3 C03",
        ),
    }
)

CLAIMED.update(
    {
        "C02": (
            "dataflow of the line id from register_line to the spliced probe; partition-representative evaluation of should_instrument_line per version; loop-shape rule on the probe loop; guard rule on the tracer callbacks; table agreement between instrumentation method calls and tracer methods; who-may-write rule on covered_line_ids",
            "Decides the plumbing clauses for all five supported versions: the id a probe reports is the one register_line returned for (code object, file of the code object, line of the probed instruction) and the probe "
            "is spliced in front of that instruction; should_instrument_line (interpreted from source through the version inheritance chain) never selects an instruction without a line, selects a new line, does not "
            "select the same line twice in a row and skips the function prologue; the probe loop considers every instruction of a block (no break / return; continue only for excluded or line-less instructions); every "
            "tracer callback reachable from instrumented code records only while tracing is enabled; every InstrumentationMethodCall names an existing tracer / provider method with that arity, forwarded in order by a proxy method that does nothing but forward; "
            "compute_line_coverage is |covered_line_ids| / |existing_lines| and covered_line_ids is written by track_line_visit and merge only. "
            "Not decided: that `first instruction of a line within a basic block` reports exactly the interpreter's LINE events for arbitrary control flow (a fact about CPython's line table), nor the END_FOR / POP_TOP skip lists.",
            "Trusts sa/checks/_instr.py (call-site extraction) and sa/engine/peval.py.",
            "DESIGN.md §3 C02",
        ),
    }
)

CLAIMED.update(
    {
        "C09": (
            "table agreement between the opcode groups the slicer reads and the opcodes the checked-coverage adapter instruments, per version; comparison of the interpreted stack_effects with dis.stack_effect over the running interpreter's opcodes; partition-representative evaluation of the slicer's explicit-data-dependency step against gen/kill laws; provenance rules for slice and checked lines",
            "Decides the tables and laws the backward traversal rests on: per version every instrumented opcode is expected by the execution-flow builder (METHODS keys within TRACED_NAMES) and, for the running interpreter, "
            "vice versa; every opcode traced as a memory or attribute access is a memory use (loads) or a memory definition (stores, deletes); STORE_NAMES holds exactly the traced stores; UniqueInstruction's predicates "
            "read the table they are named for; for the running interpreter stack_effects (interpreted through the version chain) has the net effect dis.stack_effect reports for every opcode, argument class and jump flag "
            "(IMPORT_NAME, documented in the repository, aside); check_explicit_data_dependency satisfies eight gen/kill laws over representative contexts (complete definition kills exactly its pending use; partial "
            "definition is a dependency and kills nothing; unrelated definition is none; object creation kills the address use; attribute definitions are matched per object; globals per file); checked lines are the "
            "lines of slice instructions and the slice grows from the traversal state only; track_attribute_access receives the object the instruction reads or modifies (symbolic stack); no container of the slicer is keyed by a bare basic-block node across code objects. "
            "Not decided: completeness of the traversal (stack simulation across frames and exceptions, inlined comprehensions and in-place container construction are outside what the stack simulation models).",
            "Trusts dis.stack_effect / the opcode module of the interpreter that runs the check, sa/checks/_instr.py and sa/engine/peval.py.",
            "DESIGN.md §3 C09",
        ),
    }
)

CLAIMED.update(
    {
        "C07": (
            "partition-representative evaluation: the covered-CDG construction, the branch adapter's visit_node, the control-dependence queries, the goal-graph builder and the goal manager are interpreted from source over representative control-dependence graphs (networkx graphs built by the checker) and must satisfy agreement and reachability laws",
            "Decides: for a block ending in a conditional jump, _create_covered_cdg keeps it exactly when visit_node (each of the five versions) reaches a predicate visitor, over all 16 combinations of excluded / covered lines, "
            "excluded conditional statement and line-less jump; after an excluded block is removed every predecessor is connected to every successor by an unlabelled edge (also to a successor that keeps a back edge) and "
            "the entry reaches every block; get_control_dependencies looks through unlabelled edges and terminates on cycles, is_control_dependent_on_root follows unlabelled edges only; over five representative shapes "
            "(nested, sequential + loop, excluded block in the middle, excluded block in front of a loop header, handler block) _build_graph does not fail, leaves no goal without incoming edge outside the roots, and "
            "_GoalsManager.update, driven by an archive that covers what it is handed, makes every goal current while an uncovered goal stays current and withholds its children; a basic-block node (equal by index only) keys a mapping only among the blocks of one code object. "
            "Not decided: that these shapes exhaust the CDGs a module can produce (they are representatives), nor ControlDependenceGraph.compute itself (C06).",
            "Trusts networkx (the repository's own dependency, used to hold the representative graphs) and sa/engine/peval.py.",
            "DESIGN.md §3 C07",
        ),
    }
)

CLAIMED.update(
    {
        "C06": (
            "partition-representative evaluation: CFG._insert_dummy_nodes, filter_dead_code_nodes and ControlDependenceGraph.compute (augmented graph, post-dominator tree, LCA walk) are interpreted from source over representative control-flow graphs and compared with an independent, reachability-based implementation of the definition of control dependence",
            "Decides a necessary condition only - the property quantifies over every code object and no static argument in reach covers all graphs: on eleven representative CFG shapes (straight line, diamond, if without else, "
            "nested ifs, while loop, loop with break and else, two returns, two infinite loops, unlabelled two-way split, loop nested in a branch) the interpreted construction yields one entry and one exit with every block "
            "on a path between them, filter_dead_code_nodes removes exactly the unreachable blocks (including a chain that needs a second pass), compute() returns exactly the labelled edges the definition of Ferrante et "
            "al. prescribes (post-dominance computed by the checker from reachability, not by a dominator algorithm), and is_control_dependent_on_root / get_control_dependencies agree with those edges. "
            "Two deviations on the unchanged tree are known findings (a block that depends on both outcomes of a predicate in an infinite loop keeps one label, because the graph holds one edge per pair of blocks). "
            "Not decided: graphs outside these shapes; the translation of bytecode into the CFG.",
            "Trusts networkx (immediate_dominators / lowest_common_ancestor are called by the interpreted code exactly as pynguin calls them; has_path for the oracle) and sa/engine/peval.py.",
            "DESIGN.md §3 C06 (superseded by §10.6)",
        ),
    }
)

NOT_APPLICABLE: dict[str, str] = {}

PENDING_REASON = "no static check is registered for this property yet (rules designed in DESIGN.md §3, not yet armed); not claimed"



# sentences for rules added after the level texts above were written; appended to the claimed level
EXTRA = {
    "C23": "C23.parse also reads hexadecimal / octal / binary / underscored int spellings and interprets the write half set_literal_value over the value partition; C23.escape: no read of a string node's raw_value where its value is needed; a tuple written without parentheses stays a valid literal when mutation empties it; C23.hashable: only hashable bindings are offered as elements of a set.",
    "C24": "C24.escape (raw_value); C24.seed-file interprets _read_module_source over every order of a directory listing (byte code in __pycache__, test files of modules whose name contains this one).",
    "C27": "C27.lambda interprets _get_lambda_assigned_name over single-line, parenthesised and continued module-level lambdas; C27.members interprets the member collection with the real inspect / enum modules over a plain and an enum class.",
    "C28": "C28.splice (must-pass): both _generic_visit_* generators write the mutated child into the parent before every yield.",
    "C29": "C29.open-bindings interprets the loop over the open-like bindings with the real modules: builtins.open, io.open, Path.open and os.open are all replaced.",
    "C30": "C30.sink is interpreted with filesystem isolation active (the builtin open refuses /dev/null) when the executor enters the isolation first; C30.tracked (must-pass): every seeded Random instance is registered for reseeding.",
    "C31": "C31.aux: every executor the subprocess executor builds for itself receives this executor's module provider and time bounds.",
    "C32": "C32.proxy: single-call methods of the tracer proxy forward to the wrapped method of the same name; C32.namespace: the namespace dict of an execution is created per call and not kept on the executor; C32.bounds: every executor the pipeline builds is given the configured time bounds.",
    "C33": "C33.monotonic: a worker's running time is measured on a monotonic clock (a wall-clock step back would raise the restarted worker's budget).",
    "C34": "C34.edges: issubset against str / bytes / dict operands counts the elements they yield; the constructor keeps the elements of a falsy iterable.",
    "C35": "C35.html: the lexer the HTML template instantiates yields one highlighted line per source line (evaluated with the repository's pygments); C35.regular-result: the result returned by the type-tracing executor is never the proxied execution's.",
    "C01": "Tracer callbacks are also interpreted for receivers whose attribute lookup raises KeyError / ZeroDivisionError / decimal signals (nothing may escape into the module under test).",
    "C02": "C02.isolation interprets init_trace / analyze_results over ExecutionTrace objects: every execution gets a private copy of the import trace, stored traces of results are never used as accumulator.",
    "C03": "C03.isolation: outcomes recorded by one execution do not reach the import trace, a later execution or another test's result (same interpretation as C02.isolation, predicate maps).",
    "C04": "Byte-string distances are also evaluated for non-UTF-8 operands; the partition includes user classes with partial / inconsistent rich-comparison protocols, str subclasses with their own comparison, containers whose __contains__ disagrees with iteration, and exception classes with a metaclass hook or ABC registration (MRO oracle).",
    "C05": "C05.record: every predicate callback reaches _update_metrics; an early return is allowed only under the one-shot-iterator guard of its operand and never under a condition that reads tracer state.",
    "C07": "C07.deps interprets the control-dependence queries over graphs with chains of unlabelled edges, a single-call fixed point and roots reached through two unlabelled controllers.",
    "C09": "C09.frame-flag: the scalar per-code-object flag of the slicing context is computed from the current instruction's state only (a value accumulated in one scalar mixes nested frames).",
    "C10": "C10.mio-covered interprets MIOArchive.update over a grid of fitness values: the heuristic value 1.0 (target covered) exactly for a fitness of zero.",
    "C11": "The Chromosome comparison / sorting helpers are checked to be stateless between calls.",
    "C12": "C12.laws interprets ComputationCache over every sequence (depth 3 quick / 4 thorough) of registrations, chromosome changes and queries: each getter returns what the registered functions compute on the current state; set_fitness_values (local search restoring a test) keeps fitness and covered verdict in agreement.",
    "C13": "C13.aliasing (taint): archived solutions reach local search only through clone(). C13.iterable: update archives the same goals for a list, a tuple, an iterator and a generator of the same solutions.",
    "C08": "C08.pipeline interprets from_path + get_scope + should_be_covered / should_cover_line over small modules x configurations (only-cover / no-cover nesting, definitions in excluded blocks, separators that do not end a line, async for, names defined twice, else branches of TYPE_CHECKING / __main__, marker flags); C08.read interprets read_module_ast over a representative file system (BOM, encoding declaration).",
    "C14": "C14.assignment interprets compute_ranking_assignment over populations with structurally equal individuals (partition by identity, rank == front index). RankSelection.get_index additionally satisfies a frequency law over a fixed grid of draws (better ranks are selected at least as often).",
    "C15": "C15.container interprets TestCase (registry == bound variables after add / chop / batch removal, clone independence); C15.cascade interprets delete_statement_gracefully over every well-formed 4-statement test case: no read is left without a binder and nothing outside the dependency closure is removed.",
    "C16": "sorted(..., key=...) sites are accepted only with an injective key from an enumerated table.",
    "C17": "C17.budgets interprets get_stopping_conditions: one condition per configured budget, also when budgets carry equal numbers, and every observer is attached. C17.charged (must-pass): a substitute result (timeout=True) carries the number of started statements before it reaches the budget observers.",
    "C18": "The filter that removes non-holding assertions is called unconditionally before export. C18.exc-import evaluates the writer's own reference / import expressions over a top-level, a nested and a function-local exception class.",
    "C20": "C20.nameable: isinstance assertions only for types that can be named in an expression; fields with non-identifier names are not followed.",
    "C21": "C21.unchecked (must-pass / guard dominance): a mutant that was not executed returns the skip token and is counted and collected only under `is not None`; C21.own-rendering: no verification-observer state is keyed by assertion objects, whose equality conflates 1 and True; removing non-holding assertions that raises is a finding.",
    "C22": "Statement removers also skip statements that carry assertions themselves (carrier rule). Guards that live in a predicate helper are inlined; statements that use a protected variable must be skipped as well.",
}


def build() -> dict:
    props = [json.loads(l)["id"] for l in (VERIF / "properties.jsonl").read_text().splitlines() if l.strip()]
    checks = []
    for pid in props:
        if pid not in CLAIMED:
            continue
        tech, text, note, ref = CLAIMED[pid]
        if pid in EXTRA:
            text = text + " " + EXTRA[pid]
        checks.append(
            {
                "property_id": pid,
                "quick_cmd": f"/venv/bin/python -m sa.run {pid} --tier quick",
                "thorough_cmd": f"/venv/bin/python -m sa.run {pid} --tier thorough",
                "evidence_file": f"evidence/{pid}.json",
                "replay_cmd_template": "/venv/bin/python -m sa.run --replay {path}",
                "engine": "sa",
                "level_claimed": {"category": "other", "text": text, "design_ref": ref},
                "level_note": note,
                "technique": "static analysis: " + tech,
            }
        )
    na = []
    for pid in props:
        if pid in CLAIMED:
            continue
        na.append({"property_id": pid, "reason": NOT_APPLICABLE.get(pid, PENDING_REASON)})
    return {
        "version": 1,
        "setup_cmd": "/venv/bin/python -m compileall -q sa",
        "hooks": {
            "guard": "SE2P_PYNGUIN_VERIF",
            "enable": "none needed: the checks are static and read /repo/src/pynguin from disk; no hook commits exist",
            "baseline_off_cmd": "cd /repo && /venv/bin/python -m pytest -ra -q -p no:cacheprovider --timeout=900 --continue-on-collection-errors",
            "source_commits": [],
            "add_only": True,
        },
        "engines": [
            {
                "name": "sa",
                "path": "sa/",
                "serves_properties": sorted(CLAIMED),
                "kind_free_text": "repository-specific static analysis: python ast index with static MRO and constant folding, "
                "statement CFG with exceptional edges and path queries, small abstract interpreters (operand stack, float classes, "
                "boolean formulas); armed-check self-test by AST-located edits applied as in-memory overlays",
            }
        ],
        "checks": checks,
        "not_applicable": na,
        "notes": "All checks are static: they parse /repo/src/pynguin afresh on every run and never import or execute pynguin. "
        "Exit 2 + ANALYSIS-ERROR means the analysis is broken (anchor vanished, instance floor not met), never a verdict. "
        "known_findings.json lists genuine defects recorded rather than repaired and the fix: commits made.",
    }


if __name__ == "__main__":
    (VERIF / "MANIFEST.json").write_text(json.dumps(build(), indent=1) + "\n")
    print("MANIFEST.json written:", len(build()["checks"]), "checks,", len(build()["not_applicable"]), "not applicable")
