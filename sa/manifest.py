"""Regenerates /verif/MANIFEST.json from the table below:  python -m sa.manifest"""

from __future__ import annotations

import json
from pathlib import Path

VERIF = Path(__file__).resolve().parents[1]

# property -> (technique, level text, level note, design ref)
CLAIMED: dict[str, tuple[str, str, str, str]] = {
    "C05": (
        "PAIR-FINALLY path query on a statement CFG with exceptional edges + who-may-write on the tracer flag",
        "Decides the full structural content of the property: every region that flips the tracer's enabled flag restores "
        "it on every exit (normal, exception, GeneratorExit at the yield); the flag has no other writer; the region "
        "constructors are only used as context managers; observer callbacks at statement boundaries run inside such a region. "
        "Checked on every function of src/pynguin on every run.",
        "Trusts python's ast, the CFG builder (sa/engine/cfg.py) and that `with` calls __exit__; does not execute pynguin. "
        "Behavioural statement follows because `enabled` has no other writer (also checked).",
        "DESIGN.md §3 C05",
    ),
}

CLAIMED.update(
    {
        "C17": (
            "MUST-PASS path queries on the statement CFG of every search loop + table/shape rules on counters and observer wiring",
            "Decides the iteration-boundary protocol: every generate_tests search loop tests self.resources_left() as a top-level "
            "conjunct, reaches after_search_iteration exactly once per iteration (through resolved self-method wrappers) and is "
            "dominated by before_search_start; resources_left is a universal quantifier over the list the factory assigns; the three "
            "counting conditions compare counter >= limit, increment only and unconditionally in their designated hook, reset at "
            "search start; the factory registers every condition as search observer and, when it observes execution, with the "
            "executor; executors notify observers before and after every execution. Wall-clock and memory conditions are not decided.",
            "Trusts the CFG builder and static MRO. Does not decide how many test executions happen inside one iteration.",
            "DESIGN.md §3 C17",
        ),
        "C34": (
            "ONCE dataflow (consumption counting with materialisation and isinstance refinement) on the CFG + shape rules for index normalisation and order-preserving construction",
            "Decides three structural clauses of the ordered-set contract: every Iterable parameter (and every element of *others) of "
            "the ordered-set API is consumed at most once on any path unless materialised or proven re-iterable; __getitem__ normalises "
            "negative indices before the positional comparison; `_items` and derived sets are only built from order-preserving "
            "constructions and iteration goes over the backing dict. Element equality/hash semantics and full set algebra are not decided.",
            "Trusts the CFG builder and the classification tables of materialising / non-consuming calls in sa/engine/dataflow.py.",
            "DESIGN.md §3 C34",
        ),
    }
)

NOT_APPLICABLE: dict[str, str] = {
    "C06": "Correctness of the post-dominator/CDG construction on every code object is functional correctness of a graph "
    "algorithm; no shape of the code implies it and no sound static argument in reach bounds 'all code objects'.",
}

PENDING_REASON = "no static check is registered for this property yet (rules designed in DESIGN.md §3, not yet armed); not claimed"


def build() -> dict:
    props = [json.loads(l)["id"] for l in (VERIF / "properties.jsonl").read_text().splitlines() if l.strip()]
    checks = []
    for pid in props:
        if pid not in CLAIMED:
            continue
        tech, text, note, ref = CLAIMED[pid]
        checks.append(
            {
                "property_id": pid,
                "quick_cmd": f"/venv/bin/python -m sa.run {pid} --tier quick",
                "thorough_cmd": f"/venv/bin/python -m sa.run {pid} --tier thorough",
                "evidence_file": f"evidence/{pid}.json",
                "replay_cmd_template": "/venv/bin/python -m sa.run --replay {path}",
                "engine": "sa",
                "level_claimed": {"category": "other", "text": text, "design_ref": ref},
                "level_note": note,
                "technique": "static analysis: " + tech,
            }
        )
    na = []
    for pid in props:
        if pid in CLAIMED:
            continue
        na.append({"property_id": pid, "reason": NOT_APPLICABLE.get(pid, PENDING_REASON)})
    return {
        "version": 1,
        "setup_cmd": "/venv/bin/python -m compileall -q sa",
        "hooks": {
            "guard": "SE2P_PYNGUIN_VERIF",
            "enable": "none needed: the checks are static and read /repo/src/pynguin from disk; no hook commits exist",
            "baseline_off_cmd": "cd /repo && /venv/bin/python -m pytest -ra -q -p no:cacheprovider --timeout=900 --continue-on-collection-errors",
            "source_commits": [],
            "add_only": True,
        },
        "engines": [
            {
                "name": "sa",
                "path": "sa/",
                "serves_properties": sorted(CLAIMED),
                "kind_free_text": "repository-specific static analysis: python ast index with static MRO and constant folding, "
                "statement CFG with exceptional edges and path queries, small abstract interpreters (operand stack, float classes, "
                "boolean formulas); armed-check self-test by AST-located edits applied as in-memory overlays",
            }
        ],
        "checks": checks,
        "not_applicable": na,
        "notes": "All checks are static: they parse /repo/src/pynguin afresh on every run and never import or execute pynguin. "
        "Exit 2 + ANALYSIS-ERROR means the analysis is broken (anchor vanished, instance floor not met), never a verdict. "
        "known_findings.json lists genuine defects recorded rather than repaired and the fix: commits made.",
    }


if __name__ == "__main__":
    (VERIF / "MANIFEST.json").write_text(json.dumps(build(), indent=1) + "\n")
    print("MANIFEST.json written:", len(build()["checks"]), "checks,", len(build()["not_applicable"]), "not applicable")
