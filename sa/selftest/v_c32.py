import ast

from sa.engine.index import norm
from sa.selftest.harness import delete_stmt, find_node, find_stmt, insert_before, replace_node, replace_nodes, sub_in_node, variant

TR = "pynguin.instrumentation.tracer"
EXE = "pynguin.testcase.execution"


@variant("C32", "line-callback-unchecked", TR, "C32.early", "@_early_return removed from track_line_visit")
def _v1(repo, mod):
    fn = repo.func(TR, "ExecutionTracer.track_line_visit")
    return replace_node(mod, fn.decorator_list[0], "staticmethod").replace("@staticmethod\n    def track_line_visit(self", "def track_line_visit(self").replace("    @staticmethod\n    def track_line_visit", "    def track_line_visit") if False else mod.source.replace("    @_early_return\n    def track_line_visit", "    def track_line_visit", 1)


@variant("C32", "wrapper-without-owner-check", TR, "C32.wrapper", "_early_return no longer calls check()")
def _v2(repo, mod):
    wr = next(f for q, f in mod.functions.items() if q.startswith("_early_return.<locals>."))
    return delete_stmt(mod, find_stmt(wr, lambda s: isinstance(s, ast.Expr) and norm(s) == "self.check()"))


@variant("C32", "trace-in-plain-attribute", TR, "C32.tls", "predicate updates through a non-thread-local reference")
def _v3(repo, mod):
    it = repo.func(TR, "ExecutionTracer.init_trace")
    um = repo.func(TR, "ExecutionTracer._update_metrics")
    c = find_node(um, lambda n: isinstance(n, ast.Call) and norm(n.func).endswith("update_predicate_distances"))
    return replace_nodes(mod, [(it.body[-1], mod.segment(it.body[-1]) + "\n        self._active_trace = new_trace"), (c.func, "self._active_trace.update_predicate_distances")])


@variant("C32", "shared-local-state", TR, "C32.tls", "TracerLocalState no longer a threading.local")
def _v4(repo, mod):
    cls = repo.cls(TR, "ExecutionTracer.TracerLocalState")
    return replace_node(mod, cls.bases[0], "object")


@variant("C32", "abort-swallowed", EXE, "C32.abort", "BaseException handler placed before the abort handler")
def _v5(repo, mod):
    fn = repo.func(EXE, "TestCaseExecutor.execute_source")
    tr = find_stmt(fn, lambda s: isinstance(s, ast.Try))
    a, b = tr.handlers[0], tr.handlers[1]
    return replace_nodes(mod, [(a, mod.segment(b)), (b, mod.segment(a))])


@variant("C32", "grace-wait-unbounded", EXE, "C32.timeout", "second join without timeout")
def _v6(repo, mod):
    fn = repo.func(EXE, "TestCaseExecutor.execute")
    js = [n for n in ast.walk(fn) if isinstance(n, ast.Call) and norm(n.func) == "thread.join"]
    j = max(js, key=lambda n: n.lineno)
    return replace_node(mod, j, "thread.join()")


@variant("C32", "timeout-result-from-queue", EXE, "C32.timeout", "timed-out execution answered with whatever the thread queued")
def _v7(repo, mod):
    fn = repo.func(EXE, "TestCaseExecutor.execute")
    s = find_stmt(fn, lambda s: isinstance(s, ast.Assign) and norm(s) == "result = ExecutionResult(timeout=True)" and isinstance(__import__("sa.engine.index", fromlist=["parent"]).parent(s), ast.If) and "is_alive" in norm(__import__("sa.engine.index", fromlist=["parent"]).parent(s).test))
    return replace_node(mod, s, "result = return_queue.get(block=False) if not return_queue.empty() else ExecutionResult(timeout=True)")


@variant("C32", "tracer-not-stopped", EXE, "C32.timeout", "abandoned thread keeps its ownership")
def _v8(repo, mod):
    fn = repo.func(EXE, "TestCaseExecutor.execute")
    return delete_stmt(mod, find_stmt(fn, lambda s: isinstance(s, ast.Expr) and norm(s).endswith("instrumentation_tracer.stop()")))


@variant("C32", "twin-inlined-owner-check", TR, None, "ownership check inlined instead of the decorator: the property still holds")
def _v9(repo, mod):
    return mod.source.replace("    @_early_return\n    def executed_code_object(self, code_object_id: int) -> None:  # noqa: D102\n", "    def executed_code_object(self, code_object_id: int) -> None:  # noqa: D102\n        if self.is_disabled():\n            return\n        self.check()\n", 1)


SUB = "pynguin.testcase.subprocess_executor"


@variant("C32", "empty-test-zero-timeout", EXE, "C32.timeout", "timeout proportional to the size: 0 s for the empty test case (the repaired defect)")
def _v20(repo, mod):
    fn = repo.func(EXE, "TestCaseExecutor.execute")
    c = find_node(fn, lambda n: isinstance(n, ast.Call) and norm(n) == "max(1, test_case.size())")
    return replace_node(mod, c, "test_case.size()")


@variant("C32", "empty-test-zero-timeout-subprocess", SUB, "C32.timeout", "same in the subprocess executor")
def _v21(repo, mod):
    c = find_node(repo.module(SUB).tree, lambda n: isinstance(n, ast.Call) and norm(n) == "max(1, test_case.size())")
    return replace_node(mod, c, "test_case.size()")


@variant("C32", "twin-floor-written-differently", EXE, None, "max(size, 1) stays silent")
def _v22(repo, mod):
    fn = repo.func(EXE, "TestCaseExecutor.execute")
    c = find_node(fn, lambda n: isinstance(n, ast.Call) and norm(n) == "max(1, test_case.size())")
    return replace_node(mod, c, "(test_case.size() or 1)")


@variant("C32", "exit-revokes-foreign-ownership", TR, "C32.ownership", "__exit__ stops the tracer whoever owns it (the repaired defect)")
def _v30(repo, mod):
    fn = repo.methods(repo.cls(TR, "ExecutionTracer"))["__exit__"]
    s = find_stmt(fn, lambda s: isinstance(s, ast.If))
    return replace_node(mod, s.test, "True")


@variant("C32", "stop-only-for-the-owner", TR, "C32.ownership", "stop() called by the executor no longer aborts the running thread")
def _v31(repo, mod):
    fn = repo.methods(repo.cls(TR, "ExecutionTracer"))["stop"]
    s = find_stmt(fn, lambda s: isinstance(s, ast.Assign) and "_current_thread_identifier" in norm(s.targets[0]))
    return replace_node(mod, s, "if threading.current_thread().ident == self._current_thread_identifier:\n            " + norm(s))


@variant("C32", "check-accepts-unowned-tracer", TR, "C32.ownership", "check() lets every thread run while nobody owns the tracer")
def _v32(repo, mod):
    fn = repo.methods(repo.cls(TR, "ExecutionTracer"))["check"]
    s = find_stmt(fn, lambda s: isinstance(s, ast.If))
    return replace_node(mod, s.test, "self._current_thread_identifier is not None and " + norm(s.test))


@variant("C32", "twin-exit-guard-other-way-round", TR, None, "the same ownership test written the other way round stays silent")
def _v33(repo, mod):
    fn = repo.methods(repo.cls(TR, "ExecutionTracer"))["__exit__"]
    s = find_stmt(fn, lambda s: isinstance(s, ast.If))
    return replace_node(mod, s.test, "not (self._current_thread_identifier != threading.current_thread().ident)")


@variant("C32", "proxy-run-after-timeout", EXE, "C32.no-retry", "the second (proxy) run also follows a timed-out first run")
def _v40(repo, mod):
    fn = repo.func(EXE, "TypeTracingTestCaseExecutor.execute")
    s = find_stmt(fn, lambda s: isinstance(s, ast.If) and norm(s.test) == "not result.timeout")
    return replace_node(mod, s.test, "not (result.timeout and result.has_test_exceptions())")


@variant("C32", "twin-guard-by-early-return", EXE, None, "returning early on a timeout instead of nesting stays silent")
def _v41(repo, mod):
    fn = repo.func(EXE, "TypeTracingTestCaseExecutor.execute")
    s = find_stmt(fn, lambda s: isinstance(s, ast.If) and norm(s.test) == "not result.timeout")
    return insert_before(mod, s, "if result.timeout:\n    return result")


@variant("C32", "proxy-exit-stops-unconditionally", "pynguin.instrumentation.tracer", "C32.proxy", "the proxy's __exit__ calls stop() (seed C32-e)")
def _v50(repo, mod):
    fn = repo.func("pynguin.instrumentation.tracer", "InstrumentationExecutionTracer.__exit__")
    c = find_node(fn, lambda n: isinstance(n, ast.Call) and norm(n.func) == "self._tracer.__exit__")
    return replace_node(mod, c, "self._tracer.stop()")


@variant("C32", "namespace-cached-on-the-executor", "pynguin.testcase.execution", "C32.namespace", "one namespace dict shared by all executions (seed C32-f)")
def _v51(repo, mod):
    fn = repo.func("pynguin.testcase.execution", "TestCaseExecutor._build_namespace")
    r = find_stmt(fn, lambda s: isinstance(s, ast.Return))
    return replace_node(mod, r, "self._namespace = namespace\n        return self._namespace")


@variant("C32", "mutation-executor-with-default-bounds", "pynguin.assertion.assertiongenerator", "C32.bounds", "auxiliary executor built without the configured bounds (the repaired defect)")
def _v60(repo, mod):
    fn = repo.func("pynguin.assertion.assertiongenerator", "create_filtering_executor")
    c = find_node(fn, lambda n: isinstance(n, ast.Call) and norm(n.func).endswith("SubprocessTestCaseExecutor"))
    return replace_node(mod, c, "ex.SubprocessTestCaseExecutor(plain_executor.subject_properties.sharing_registries())")
