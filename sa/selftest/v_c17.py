import ast

from sa.engine.index import norm
from sa.selftest.harness import delete_stmt, find_node, find_stmt, insert_before, replace_node, sub_in_node, variant

SC = "pynguin.ga.stoppingcondition"
FAC = "pynguin.ga.generationalgorithmfactory"
GA = "pynguin.ga.algorithms.generationalgorithm"


@variant("C17", "gt-instead-of-ge", SC, "C17.counter", ">= -> > in MaxIterations.is_fulfilled")
def _v1(repo, mod):
    fn = repo.func(SC, "MaxIterationsStoppingCondition.is_fulfilled")
    return sub_in_node(mod, fn, ">=", ">")


@variant("C17", "asi-conditional", "pynguin.ga.algorithms.wholesuitealgorithm", "C17.loop", "after_search_iteration only when fitness improved")
def _v2(repo, mod):
    fn = repo.func(mod.name, "WholeSuiteAlgorithm.generate_tests")
    s = find_stmt(fn, lambda s: isinstance(s, ast.Expr) and "after_search_iteration" in norm(s))
    ind = " " * s.col_offset
    return replace_node(mod, s, f"if suite.get_fitness() < 1.0:\n{ind}    {norm(s)}")


@variant("C17", "drop-resources-left", "pynguin.ga.algorithms.mioalgorithm", "C17.loop", "MIO loop only tests the archive")
def _v3(repo, mod):
    fn = repo.func(mod.name, "MIOAlgorithm.generate_tests")
    w = find_stmt(fn, lambda s: isinstance(s, ast.While))
    rest = [v for v in w.test.values if "resources_left" not in norm(v)]
    return replace_node(mod, w.test, " and ".join(norm(v) for v in rest))


@variant("C17", "resources-left-under-or", "pynguin.ga.algorithms.randomalgorithm", "C17.loop", "and -> or in the loop condition")
def _v3b(repo, mod):
    fn = repo.func(mod.name, "RandomAlgorithm.generate_tests")
    w = find_stmt(fn, lambda s: isinstance(s, ast.While))
    return replace_node(mod, w.test, " or ".join(norm(v) for v in w.test.values))


@variant("C17", "skip-add-search-observer", FAC, "C17.wiring", "stopping conditions not registered as search observers")
def _v4(repo, mod):
    fn = repo.func(FAC, "TestSuiteGenerationAlgorithmFactory.get_search_algorithm")
    s = find_stmt(fn, lambda s: isinstance(s, ast.Expr) and norm(s) == "strategy.add_search_observer(stop)")
    return delete_stmt(mod, s)


@variant("C17", "any-instead-of-all", GA, "C17.resources", "resources_left uses any()")
def _v5(repo, mod):
    fn = repo.func(GA, "GenerationAlgorithm.resources_left")
    return sub_in_node(mod, fn.body[-1], "all(", "any(")


@variant("C17", "counter-in-wrong-hook", SC, "C17.counter", "MaxTestExecutions counts after the search iteration instead of per execution")
def _v6(repo, mod):
    fn = repo.func(SC, "MaxTestExecutionsStoppingCondition.before_remote_test_case_execution")
    return replace_node(mod, fn, mod.segment(fn).replace("before_remote_test_case_execution", "before_test_case_execution"))


@variant("C17", "observes-execution-false", SC, "C17.wiring", "MaxStatementExecutions no longer observes execution")
def _v7(repo, mod):
    fn = repo.func(SC, "MaxStatementExecutionsStoppingCondition.__init__")
    return sub_in_node(mod, fn, "observes_execution=True", "observes_execution=False")


@variant("C17", "no-reset-at-start", SC, "C17.counter", "MaxIterations.before_search_start does not reset")
def _v8(repo, mod):
    fn = repo.func(SC, "MaxIterationsStoppingCondition.before_search_start")
    return delete_stmt(mod, fn.body[-1])


@variant("C17", "before-hook-after-start", "pynguin.testcase.execution", "C17.hooks", "executor notifies observers only for non-empty test cases")
def _v9(repo, mod):
    fn = repo.func(mod.name, "TestCaseExecutor.execute")
    s = find_stmt(fn, lambda s: isinstance(s, ast.Expr) and "_before_remote_test_case_execution" in norm(s))
    ind = " " * s.col_offset
    return replace_node(mod, s, f"if test_case.size() > 0:\n{ind}    {norm(s)}")


@variant("C17", "twin-reorder-conjuncts", "pynguin.ga.algorithms.randomsearchalgorithm", None, "swap the two conjuncts of the loop condition")
def _v10(repo, mod):
    fn = repo.func(mod.name, "RandomTestSuiteSearchAlgorithm.generate_tests")
    w = find_stmt(fn, lambda s: isinstance(s, ast.While))
    return replace_node(mod, w.test, " and ".join(norm(v) for v in reversed(w.test.values)))


RND = "pynguin.ga.algorithms.randomalgorithm"
MOSA = "pynguin.ga.algorithms.mosaalgorithm"


def _reset(repo, modname, qn):
    fn = repo.func(modname, qn)
    return fn, find_stmt(fn, lambda s: isinstance(s, ast.Expr) and norm(s.value) == "self.before_search_start()")


@variant("C17", "population-before-reset", MOSA, "C17.reset-first", "the initial population is executed before the counters are reset")
def _v20(repo, mod):
    fn, r = _reset(repo, MOSA, "MOSAAlgorithm._initialize_generation")
    pop = find_stmt(fn, lambda s: isinstance(s, ast.Assign) and norm(s.value) == "self._get_random_population()")
    return delete_stmt(mod, r).replace(norm(pop) + "\n", norm(pop) + "\n        self.before_search_start()\n", 1)


@variant("C17", "reset-under-condition", RND, "C17.reset-first", "the reset happens only on one branch")
def _v21(repo, mod):
    _fn, r = _reset(repo, RND, "RandomAlgorithm.generate_tests")
    return replace_node(mod, r, "if self._test_suite_fitness_functions:\n            self.before_search_start()")


@variant("C17", "reset-twice", RND, "C17.reset-first", "a second reset in the middle of the function forgets what was consumed")
def _v22(repo, mod):
    fn, _r = _reset(repo, RND, "RandomAlgorithm.generate_tests")
    return insert_before(mod, fn.body[-1], "self.before_search_start()")


@variant("C17", "twin-log-and-local-before-reset", RND, None, "logging and a constructor call before the reset stay silent")
def _v23(repo, mod):
    _fn, r = _reset(repo, RND, "RandomAlgorithm.generate_tests")
    return insert_before(mod, r, 'self._logger.info("starting")\nspare = tsc.TestSuiteChromosome()')


@variant("C17", "timed-out-execution-not-charged", "pynguin.testcase.execution", "C17.charged", "statements of a timed-out test are not charged to the statement budget (the repaired defect)")
def _v50(repo, mod):
    fn = repo.func("pynguin.testcase.execution", "TestCaseExecutor.execute")
    s = find_stmt(fn, lambda s: isinstance(s, ast.If) and norm(s.test) == "result.timeout")
    return delete_stmt(mod, s)


@variant("C17", "charge-only-for-results-from-the-queue", "pynguin.testcase.execution", "C17.charged", "charge moved into the branch that takes a result from the queue: the watchdog's own timeout result stays uncharged")
def _v51(repo, mod):
    from sa.selftest.harness import replace_nodes
    fn = repo.func("pynguin.testcase.execution", "TestCaseExecutor.execute")
    s = find_stmt(fn, lambda s: isinstance(s, ast.If) and norm(s.test) == "result.timeout")
    g = find_stmt(fn, lambda s: isinstance(s, ast.Assign) and "return_queue.get" in norm(s.value))
    ind = " " * g.col_offset
    return replace_nodes(mod, [(s, "pass"), (g, mod.segment(g) + f"\n{ind}if result.timeout:\n{ind}    result.num_executed_statements = started_statements[0]")])


@variant("C17", "twin-charge-at-construction", "pynguin.testcase.execution", None, "each substitute result gets its count where it is built")
def _v52(repo, mod):
    src = mod.source
    src = src.replace("                result = ExecutionResult(timeout=True)\n                _LOGGER.warning(\"Experienced timeout from test-case execution\")\n", "                result = ExecutionResult(timeout=True)\n                result.num_executed_statements = started_statements[0]\n                _LOGGER.warning(\"Experienced timeout from test-case execution\")\n")
    src = src.replace("                    _LOGGER.error(\"Bug in Pynguin!\")\n                    result = ExecutionResult(timeout=True)\n", "                    _LOGGER.error(\"Bug in Pynguin!\")\n                    result = ExecutionResult(timeout=True)\n                    result.num_executed_statements = started_statements[0]\n")
    return src


@variant("C17", "one-observer-per-class", "pynguin.testcase.execution", "C17.budgets", "add_observer drops a second observer of the same class")
def _v60(repo, mod):
    fn = repo.func("pynguin.testcase.execution", "TestCaseExecutor.add_observer")
    s = find_stmt(fn, lambda s: isinstance(s, ast.Expr) and norm(s) == "self._observers.append(observer)")
    return replace_node(mod, s, "if not any(type(existing) is type(observer) for existing in self._observers):\n            self._observers.append(observer)")


@variant("C17", "budgets-keyed-by-their-limit", FAC, "C17.budgets", "equal limits collapse into one stopping condition")
def _v61(repo, mod):
    from sa.selftest.harness import text_edit
    old = "        if (max_stmt := stopping.maximum_statement_executions) >= 0:\n            conditions.append(MaxStatementExecutionsStoppingCondition(max_stmt))\n"
    new = "        if (max_stmt := stopping.maximum_statement_executions) >= 0 and max_stmt != stopping.maximum_iterations:\n            conditions.append(MaxStatementExecutionsStoppingCondition(max_stmt))\n"
    return text_edit(mod, old, new)
