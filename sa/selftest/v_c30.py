import ast

from sa.engine.index import norm
from sa.selftest.harness import delete_stmt, find_node, find_stmt, insert_before, replace_node, replace_nodes, sub_in_node, variant

ISO = "pynguin.testcase.execution_isolation"
EXE = "pynguin.testcase.execution"
OSC = "OutputSuppressionContext"


@variant("C30", "streams-restored-conditionally", ISO, "C30.unconditional", "streams only reset when they still are the sink")
def _v1(repo, mod):
    fn = repo.func(ISO, f"{OSC}.restore")
    s = find_stmt(fn, lambda s: isinstance(s, ast.Assign) and norm(s) == "sys.stdout = sys.__stdout__")
    ind = " " * s.col_offset
    return replace_node(mod, s, f"if sys.stdout is self._null_file:\n{ind}    sys.stdout = sys.__stdout__")


@variant("C30", "logging-threshold-not-restored", ISO, "C30.restore-saved", "logging threshold left as the test case set it (the repaired defect)")
def _v2(repo, mod):
    fn = repo.func(ISO, f"{OSC}.restore")
    s = find_stmt(fn, lambda s: isinstance(s, ast.If) and "_saved_logging_disable" in norm(s.test))
    return delete_stmt(mod, s)


@variant("C30", "logging-reset-to-notset", ISO, "C30.restore-saved", "suppress_logging resets to NOTSET (the repaired defect)")
def _v3(repo, mod):
    fn = repo.func(ISO, "suppress_logging")
    tr = find_stmt(fn, lambda s: isinstance(s, ast.Try))
    return replace_node(mod, tr.finalbody[0], "logging.disable(logging.NOTSET)")


@variant("C30", "closed-sink-reused", ISO, "C30.sink", "shared sink not re-opened (the repaired defect)")
def _v4(repo, mod):
    fn = repo.func(ISO, f"{OSC}.__enter__")
    return delete_stmt(mod, find_stmt(fn, lambda s: isinstance(s, ast.If) and norm(s.test) == "unusable"))


@variant("C30", "reseed-after-execution", EXE, "C30.reseed", "reseeding moved to the after-hook")
def _v5(repo, mod):
    b = repo.func(EXE, "TestCaseExecutor._before_test_case_execution")
    a = repo.func(EXE, "TestCaseExecutor._after_test_case_execution")
    s = find_stmt(b, lambda s: isinstance(s, ast.Expr) and norm(s) == "_make_deterministic()")
    return replace_nodes(mod, [(s, "pass"), (a.body[-1], mod.segment(a.body[-1]) + "\n        _make_deterministic()")])


@variant("C30", "own-rng-reseeded", ISO, "C30.reseed", "Pynguin's generator no longer excluded")
def _v6(repo, mod):
    fn = repo.func(ISO, "_make_deterministic")
    s = find_stmt(fn, lambda s: isinstance(s, ast.If) and norm(s.test) == "_inst is not randomness.RNG")
    return replace_node(mod, s.test, "True")


@variant("C30", "timeout-path-keeps-redirection", EXE, "C30.all-exits", "executor no longer restores the streams after a timeout")
def _v7(repo, mod):
    fn = repo.func(EXE, "TestCaseExecutor.execute")
    s = find_stmt(fn, lambda s: isinstance(s, ast.Expr) and norm(s) == "output_suppression_context.restore()")
    return delete_stmt(mod, s)


@variant("C30", "fds-not-restored", ISO, "C30.restore-saved", "saved descriptors closed without dup2")
def _v8(repo, mod):
    fn = repo.func(ISO, f"{OSC}.restore")
    c = find_node(fn, lambda n: isinstance(n, ast.Call) and norm(n.func) == "os.dup2")
    return replace_node(mod, c, "os.fstat(saved_fd)")


@variant("C30", "twin-unused-local", ISO, None, "behaviour-preserving edit")
def _v9(repo, mod):
    fn = repo.func(ISO, "_make_deterministic")
    return insert_before(mod, fn.body[-1], "_unused = seed")


@variant("C30", "detached-sink-not-handled", ISO, "C30.sink", "`.closed` of a detached sink raises in __enter__ (the repaired defect)")
def _v30(repo, mod):
    fn = repo.func(ISO, f"{OSC}.__enter__")
    t = find_stmt(fn, lambda s: isinstance(s, ast.Try) and "closed" in norm(s))
    return replace_node(mod, t, "unusable = self._null_file.closed")


@variant("C30", "reopened-sink-not-shared", ISO, "C30.sink", "a fresh sink is opened but the streams still go to the closed one")
def _v31(repo, mod):
    fn = repo.func(ISO, f"{OSC}.__enter__")
    s = find_stmt(fn, lambda s: isinstance(s, ast.Assign) and norm(s.targets[0]) == f"{OSC}._null_file")
    return replace_node(mod, s.targets[0], "_fresh_sink")


@variant("C30", "stdin-not-restored", ISO, "C30.roundtrip", "sys.stdin left as the test case set it (the repaired defect)")
def _v32(repo, mod):
    fn = repo.func(ISO, f"{OSC}.restore")
    s = find_stmt(fn, lambda s: isinstance(s, ast.If) and "_saved_stdin" in norm(s.test))
    return delete_stmt(mod, s)


@variant("C30", "root-level-saved-after-the-redirect-but-never-restored", ISO, "C30.roundtrip", "root level saved, never put back (the repaired defect)")
def _v33(repo, mod):
    fn = repo.func(ISO, f"{OSC}.restore")
    s = find_stmt(fn, lambda s: isinstance(s, ast.If) and "_saved_root_level" in norm(s.test))
    return delete_stmt(mod, s)


@variant("C30", "threshold-restored-only-when-nonzero", ISO, "C30.roundtrip", "truthiness instead of `is not None`: the usual threshold 0 is never restored")
def _v34(repo, mod):
    fn = repo.func(ISO, f"{OSC}.restore")
    s = find_stmt(fn, lambda s: isinstance(s, ast.If) and "_saved_logging_disable" in norm(s.test))
    return replace_node(mod, s.test, "self._saved_logging_disable")


@variant("C30", "fds-restored-crosswise", ISO, "C30.roundtrip", "dup2 with its arguments swapped")
def _v35(repo, mod):
    fn = repo.func(ISO, f"{OSC}.restore")
    c = find_node(fn, lambda n: isinstance(n, ast.Call) and norm(n.func) == "os.dup2")
    return replace_node(mod, c, "os.dup2(fd, saved_fd)")


@variant("C30", "twin-state-saved-in-one-tuple", ISO, None, "saving stdin and level in one tuple stays silent")
def _v36(repo, mod):
    src = mod.source
    src = src.replace("        self._saved_root_level = logging.root.level\n        self._saved_stdin = sys.stdin\n", "        self._saved_root_level, self._saved_stdin = logging.root.level, sys.stdin\n")
    return src


@variant("C30", "only-default-seeded-generators-tracked", "pynguin.generator", "C30.tracked", "explicitly seeded Random instances are not registered (seed C30-e)")
def _v50(repo, mod):
    from sa.selftest.harness import text_edit
    return text_edit(mod, "            orig_random_seed(self, x)\n            tracked.add(self)\n", "            if x is None:\n                tracked.add(self)\n            orig_random_seed(self, x)\n")


@variant("C30", "sink-reopened-through-the-patched-open", ISO, "C30.sink", "builtin open under filesystem isolation (the repaired defect)")
def _v51(repo, mod):
    from sa.selftest.harness import text_edit
    return text_edit(mod, "self._open(os.devnull, mode=\"w\")", "open(os.devnull, mode=\"w\")")


@variant("C30", "root-handlers-not-restored", ISO, "C30.roundtrip", "handlers a test case installed stay (the repaired defect)")
def _v60(repo, mod):
    fn = repo.func(ISO, f"{OSC}.restore")
    s = find_stmt(fn, lambda s: isinstance(s, ast.If) and "_saved_root_handlers" in norm(s.test))
    return delete_stmt(mod, s)


@variant("C30", "disabled-flags-not-restored", ISO, "C30.roundtrip", "loggers disabled by dictConfig stay disabled (the repaired defect)")
def _v61(repo, mod):
    fn = repo.func(ISO, f"{OSC}.restore")
    s = find_stmt(fn, lambda s: isinstance(s, ast.If) and "_saved_disabled_loggers" in norm(s.test))
    return delete_stmt(mod, s)
