import ast

from sa.engine.index import norm
from sa.selftest.harness import delete_stmt, find_node, find_stmt, insert_before, replace_node, replace_nodes, sub_in_node, variant

RK = "pynguin.ga.operators.ranking"
CMP = "pynguin.ga.operators.comparator"
SEL = "pynguin.ga.operators.selection"
NDS = "RankBasedPreferenceSorting._get_non_dominated_solutions"


@variant("C14", "scan-stops-at-first-dominance", RK, "C14.front", "inner scan breaks on any non-zero flag")
def _v1(repo, mod):
    fn = repo.func(RK, NDS)
    s = find_stmt(fn, lambda s: isinstance(s, ast.If) and norm(s.test) == "flag < 0")
    ind = " " * s.col_offset
    return replace_node(mod, s, mod.segment(s) + f"\n{ind}    break")


@variant("C14", "dominated-front-members-kept", RK, "C14.front", "dominated members are no longer removed from the front")
def _v2(repo, mod):
    fn = repo.func(RK, NDS)
    s = find_stmt(fn, lambda s: isinstance(s, ast.For) and norm(s.iter) == "dominated_solutions")
    return delete_stmt(mod, s)


@variant("C14", "weak-dominance", CMP, "C14.dominance", "equal vectors count as dominating")
def _v3(repo, mod):
    fn = repo.func(CMP, "DominanceComparator.compare")
    s = find_stmt(fn, lambda s: isinstance(s, ast.If) and norm(s.test) == "dominate_1 == dominate_2")
    return replace_node(mod, s.test, "dominate_1 and dominate_2")


@variant("C14", "front-not-removed", RK, "C14.assignment", "ranked individuals stay in `remaining`")
def _v4(repo, mod):
    fn = repo.func(RK, "RankBasedPreferenceSorting.compute_ranking_assignment")
    s = find_stmt(fn, lambda s: isinstance(s, ast.Assign) and norm(s) == "remaining = self._without(remaining, new_front)")
    return delete_stmt(mod, s)


@variant("C14", "ranked-removed-by-equality", RK, "C14.assignment", "list.remove takes out the first equal individual (the repaired defect)")
def _v40(repo, mod):
    fn = repo.func(RK, "RankBasedPreferenceSorting._without")
    body = "remaining = list(solutions)\n        for element in front:\n            if element in remaining:\n                remaining.remove(element)\n        return remaining"
    from sa.selftest.harness import replace_nodes
    stmts = [s for s in fn.body if not (isinstance(s, ast.Expr) and isinstance(s.value, ast.Constant))]
    return replace_nodes(mod, [(stmts[0], body)] + [(x, "pass") for x in stmts[1:-1]] + ([(stmts[-1], "pass")] if len(stmts) > 1 else []))


@variant("C14", "all-equal-individuals-dropped", RK, "C14.assignment", "membership by == drops the clones of a ranked individual")
def _v41(repo, mod):
    fn = repo.func(RK, "RankBasedPreferenceSorting._without")
    r = find_stmt(fn, lambda s: isinstance(s, ast.Return))
    return replace_node(mod, r, "return [solution for solution in solutions if solution not in front]")


@variant("C14", "twin-identity-by-is", RK, None, "identity test written with `is`")
def _v42(repo, mod):
    fn = repo.func(RK, "RankBasedPreferenceSorting._without")
    r = find_stmt(fn, lambda s: isinstance(s, ast.Return))
    return replace_node(mod, r, "return [solution for solution in solutions if not any(solution is member for member in front)]")


@variant("C14", "singleton-front-keeps-distance", RK, "C14.distance", "early return for fronts with one member skips the reset")
def _v5(repo, mod):
    fn = repo.func(RK, "fast_epsilon_dominance_assignment")
    first = next(s for s in fn.body if isinstance(s, ast.For))
    return insert_before(mod, first, "if len(front) < 2:\n    return")


@variant("C14", "distance-can-reach-one", RK, "C14.distance", "numerator no longer subtracts the minimal set")
def _v6(repo, mod):
    fn = repo.func(RK, "fast_epsilon_dominance_assignment")
    s = find_stmt(fn, lambda s: isinstance(s, ast.Assign) and norm(s.targets[0]) == "numerator")
    return replace_node(mod, s.value, "len(front)")


@variant("C14", "bias-one-divides-by-zero", SEL, "C14.index", "uniform case removed (the repaired defect)")
def _v7(repo, mod):
    fn = repo.func(SEL, "RankSelection.get_index")
    s = find_stmt(fn, lambda s: isinstance(s, ast.If) and norm(s.test) == "bias == 1.0")
    return replace_node(mod, s.test, "False")


@variant("C14", "index-not-clamped", SEL, "C14.index", "no clamp to len - 1 (the repaired defect)")
def _v8(repo, mod):
    fn = repo.func(SEL, "RankSelection.get_index")
    r = fn.body[-1]
    return replace_node(mod, r, "return index")


@variant("C14", "zero-front-prefers-longer", CMP, "C14.zero-front", "tie on fitness broken in favour of the longer test")
def _v9(repo, mod):
    fn = repo.func(CMP, "PreferenceSortingComparator.compare")
    s = find_stmt(fn, lambda s: isinstance(s, ast.If) and norm(s.test) == "chromosome_1.length() < chromosome_2.length()")
    return replace_node(mod, s.test, "chromosome_1.length() > chromosome_2.length()")


@variant("C14", "twin-unused-local", RK, None, "behaviour-preserving edit")
def _v10(repo, mod):
    fn = repo.func(RK, NDS)
    return insert_before(mod, fn.body[-1], "_unused = front_index")


@variant("C14", "zero-front-capped-at-population-size", RK, "C14.zero-front", "the zero front stops collecting per-goal bests at the population size (seed C14-c)")
def _vz1(repo, mod):
    fn = repo.func(RK, "RankBasedPreferenceSorting._get_zero_front")
    loop = find_node(fn, lambda n: isinstance(n, ast.For))
    return insert_before(mod, loop.body[0], "if len(zero_front) >= config.configuration.search_algorithm.population:\n    break")
