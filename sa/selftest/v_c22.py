import ast

from sa.engine.index import norm
from sa.selftest.harness import delete_stmt, find_node, find_stmt, insert_before, replace_node, replace_nodes, sub_in_node, variant

PP = "pynguin.ga.postprocess"
GEN = "pynguin.generator"


def _guard(fn):
    return find_stmt(fn, lambda s: isinstance(s, ast.If) and "isclose" in norm(s.test))


@variant("C22", "guard-negated", PP, "C22.guard", "Forward visitor removes when coverage differs")
def _v1(repo, mod):
    fn = repo.func(PP, "ForwardIterativeMinimizationVisitor.visit_default_test_case")
    g = _guard(fn)
    return replace_node(mod, g.test, "not " + norm(g.test))


@variant("C22", "protected-skip-dropped-backward", PP, "C22.protected", "Backward visitor no longer skips protected variables")
def _v2(repo, mod):
    fn = repo.func(PP, "BackwardIterativeMinimizationVisitor.visit_default_test_case")
    s = find_stmt(fn, lambda s: isinstance(s, ast.If) and "protected" in norm(s.test))
    return replace_node(mod, s.test, "False")


@variant("C22", "protected-skip-dropped-combined", PP, "C22.protected", "Combined visitor without the protected skip (the repaired defect)")
def _v3(repo, mod):
    fn = repo.func(PP, "CombinedMinimizationVisitor._minimize_statements_across_test_suite")
    s = find_stmt(fn, lambda s: isinstance(s, ast.If) and "protected" in norm(s.test))
    return replace_node(mod, s.test, "False")


@variant("C22", "clone-removes-other-index", PP, "C22.guard", "the clone loses statement i+1, the original statement i")
def _v4(repo, mod):
    fn = repo.func(PP, "ForwardIterativeMinimizationVisitor.visit_default_test_case")
    c = find_node(fn, lambda n: isinstance(n, ast.Call) and norm(n.func) == "test_clone.remove_statement_with_forward_dependencies")
    return replace_node(mod, c.args[0], "i + 1")


@variant("C22", "reference-coverage-moving", PP, "C22.guard", "the reference coverage is recomputed inside the loop")
def _v5(repo, mod):
    fn = repo.func(PP, "TestSuiteMinimizationVisitor.visit_test_suite_chromosome")
    g = _guard(fn)
    a = find_stmt(fn, lambda s: isinstance(s, ast.Assign) and norm(s.targets[0]) == "original_coverage")
    return replace_nodes(mod, [(a, "pass"), (g, norm(a) + "\n" + " " * g.col_offset + mod.segment(g))])


@variant("C22", "closure-flag-overwritten", PP, "C22.closure", "changed = bool(missing) inside the scan")
def _v6(repo, mod):
    fn = repo.func(PP, "_add_backward_dependencies")
    loop = find_stmt(fn, lambda s: isinstance(s, ast.For))
    s = find_stmt(loop, lambda s: isinstance(s, ast.Assign) and norm(s) == "changed = True")
    return replace_node(mod, s, "changed = used in protected")


@variant("C22", "combined-keeps-stale-chromosome", PP, "C22.stale", "set_test_case_chromosome after the in-place removal dropped")
def _v7(repo, mod):
    fn = repo.func(PP, "CombinedMinimizationVisitor._minimize_statements_across_test_suite")
    s = find_stmt(fn, lambda s: isinstance(s, ast.Expr) and norm(s).startswith("chromosome.set_test_case_chromosome"))
    return delete_stmt(mod, s)


@variant("C22", "postprocessor-keeps-result", PP, "C22.stale", "TestCasePostProcessor no longer forces re-execution")
def _v8(repo, mod):
    fn = repo.func(PP, "TestCasePostProcessor.visit_test_case_chromosome")
    s = find_stmt(fn, lambda s: isinstance(s, ast.Expr) and "remove_last_execution_result" in norm(s))
    return delete_stmt(mod, s)


@variant("C22", "snapshot-after-minimisation", GEN, "C22.restore", "the restore copy is taken after the minimisers ran")
def _v9(repo, mod):
    fn = repo.func(GEN, "_minimize")
    s = find_stmt(fn, lambda s: isinstance(s, ast.Assign) and norm(s.value) == "generation_result.clone()")
    t = find_stmt(fn, lambda s: isinstance(s, ast.Assign) and norm(s.targets[0]) == "minimized_coverages")
    return replace_nodes(mod, [(s, "pass"), (t, norm(s) + "\n" + " " * t.col_offset + mod.segment(t))])


@variant("C22", "restore-without-changed", GEN, "C22.restore", "restored suite keeps its cached coverage")
def _v10(repo, mod):
    fn = repo.func(GEN, "_minimize")
    s = find_stmt(fn, lambda s: isinstance(s, ast.Assign) and norm(s) == "generation_result.changed = True")
    return delete_stmt(mod, s)


@variant("C22", "visitor-adds-statement", PP, "C22.subset", "a minimiser appends a statement")
def _v11(repo, mod):
    fn = repo.func(PP, "UnusedStatementsTestCaseVisitor.visit_default_test_case")
    return insert_before(mod, fn.body[-1], "test_case.add_statement(test_case.get_statement(0))")


@variant("C22", "twin-unused-local", PP, None, "behaviour-preserving edit")
def _v12(repo, mod):
    fn = repo.func(PP, "ForwardIterativeMinimizationVisitor.visit_default_test_case")
    return insert_before(mod, _guard(fn), "_unused = i")


from sa.selftest.harness import node_text  # noqa: E402


@variant("C22", "asserted-skips-unbound-statements", PP, "C22.asserted", "assertions on a statement without a bound variable are not seen")
def _v20(repo, mod):
    fn = repo.func(PP, "_directly_asserted_variables")
    inner = find_stmt(fn, lambda s: isinstance(s, ast.For) and norm(s.iter) == "statement.assertions")
    return insert_before(mod, inner, "if statement.bound_variable is None:\n    continue")


@variant("C22", "asserted-keeps-attribute-path", PP, "C22.asserted", "`var_0.field` is protected under that name, not as var_0")
def _v21(repo, mod):
    fn = repo.func(PP, "_directly_asserted_variables")
    c = find_node(fn, lambda n: isinstance(n, ast.Subscript) and "split" in norm(n))
    return replace_node(mod, c, "source")


@variant("C22", "comparison-reads-cached-coverage", GEN, "C22.restore", "suite not marked changed before the minimised coverages (the repaired defect)")
def _v22(repo, mod):
    fn = repo.func(GEN, "_minimize")
    s = find_stmt(fn, lambda s: norm(s) == "generation_result.changed = True")
    return delete_stmt(mod, s)


@variant("C22", "restore-queries-all-functions-at-once", GEN, "C22.restore", "get_coverage_for(<collection>) in the restore path (the repaired defect)")
def _v23(repo, mod):
    fn = repo.func(GEN, "_minimize")
    s = find_stmt(fn, lambda s: isinstance(s, ast.Assign) and norm(s.targets[0]) == "restored_coverages")
    return replace_node(mod, s.value, "generation_result.get_coverage_for(fitness_functions)")


@variant("C22", "minimiser-after-the-comparison-values", GEN, "C22.restore", "a suite minimiser runs after the minimised coverages were taken")
def _v24(repo, mod):
    fn = repo.func(GEN, "_minimize")
    s = find_stmt(fn, lambda s: isinstance(s, ast.Assign) and "_check_coverage" in norm(s.value))
    return insert_before(mod, s, "generation_result.accept(pp.TestSuiteMinimizationVisitor(fitness_functions))")


@variant("C22", "twin-minimize-locals-renamed", GEN, None, "renaming the locals of _minimize stays silent")
def _v25(repo, mod):
    fn = repo.func(GEN, "_minimize")
    text = node_text(mod, fn)
    for old, new in (("is_same", "unchanged"), ("minimized_coverages", "after"), ("original_coverages", "before"), ("original_test_suite", "backup"), ("fitness_functions", "coverage_functions")):
        text = text.replace(old, new)
    return replace_node(mod, fn, text)


@variant("C22", "assertion-carrying-statements-removable", PP, "C22.protected", "only the bound variable decides whether a statement is kept (the repaired defect)")
def _v40(repo, mod):
    fn = repo.func(PP, "BackwardIterativeMinimizationVisitor.visit_default_test_case")
    s = find_stmt(fn, lambda s: isinstance(s, ast.If) and "protected" in norm(s.test))
    return replace_node(mod, s.test, "statement.bound_variable in protected")


@variant("C22", "users-of-protected-variables-removable", PP, "C22.protected", "statements that use an asserted object are not kept (the repaired defect)")
def _v41(repo, mod):
    fn = repo.func(PP, "_is_protected")
    r = find_stmt(fn, lambda s: isinstance(s, ast.Return))
    return replace_node(mod, r.value.values[-1], "False")


@variant("C22", "helper-forgets-assertion-carriers", PP, "C22.protected", "the predicate helper no longer looks at the statement's own assertions")
def _v42(repo, mod):
    fn = repo.func(PP, "_is_protected")
    r = find_stmt(fn, lambda s: isinstance(s, ast.Return))
    return replace_node(mod, r.value.values[1], "False")


@variant("C22", "twin-guard-written-inline", PP, None, "the predicate written out in the visitor instead of the helper")
def _v43(repo, mod):
    fn = repo.func(PP, "ForwardIterativeMinimizationVisitor.visit_default_test_case")
    s = find_stmt(fn, lambda s: isinstance(s, ast.If) and "protected" in norm(s.test))
    return replace_node(mod, s.test, "statement.bound_variable in protected or statement.assertions or (statement.used_variables() & protected)")
