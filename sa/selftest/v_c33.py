import ast

from sa.engine.index import norm
from sa.selftest.harness import delete_stmt, find_node, find_stmt, insert_before, replace_node, replace_nodes, sub_in_node, variant

MA = "pynguin.master_worker.master"
CL = "pynguin.master_worker.client"
WO = "pynguin.master_worker.worker"


@variant("C33", "twin-sending-end-left-open", MA, None, "parent keeps its copy of the sending end open: harmless since the master watches the worker's liveness (was a break while get_result relied on EOF)")
def _v1(repo, mod):
    fn = repo.func(MA, "RunningTask._start_worker")
    return delete_stmt(mod, find_stmt(fn, lambda s: isinstance(s, ast.Expr) and norm(s) == "sending_connection.close()"))


@variant("C33", "twin-sending-end-stored", MA, None, "sending end stored in an attribute: harmless since the master watches the worker's liveness (was a break while get_result relied on EOF)")
def _v2(repo, mod):
    fn = repo.func(MA, "RunningTask._start_worker")
    s = find_stmt(fn, lambda s: isinstance(s, ast.Assign) and norm(s.targets[0]) == "self._task")
    return insert_before(mod, s, "self._sending_connection = sending_connection")


@variant("C33", "start-before-abort", MA, "C33.variant", "worker restarted before the `<= 0` abort")
def _v3(repo, mod):
    fn = repo.func(MA, "RunningTask._restart")
    g = find_stmt(fn, lambda s: isinstance(s, ast.If) and "maximum_search_time <= 0" in norm(s.test))
    return insert_before(mod, g, "self._start_worker(self._task)")


@variant("C33", "adjust-only-on-second-restart", MA, "C33.variant", "first restart is free")
def _v4(repo, mod):
    fn = repo.func(MA, "RunningTask._restart")
    s = find_stmt(fn, lambda s: isinstance(s, ast.Expr) and "_adjust_search_time_after_crash" in norm(s))
    ind = " " * s.col_offset
    return replace_node(mod, s, f"if self._restart_count > 0:\n{ind}    {norm(s)}")


@variant("C33", "elapsed-truncated-first", MA, "C33.decrease", "elapsed time truncated to whole seconds before the subtraction")
def _v5(repo, mod):
    fn = repo.func(MA, "RunningTask._adjust_search_time_after_crash")
    s = find_stmt(fn, lambda s: isinstance(s, ast.Assign) and norm(s.targets[0]) == "remaining_time")
    return replace_node(mod, s.value, "max(current_search_time - int(elapsed_time), 0)")


@variant("C33", "rounding-up", MA, "C33.decrease", "remaining time rounded instead of truncated")
def _v6(repo, mod):
    fn = repo.func(MA, "RunningTask._adjust_search_time_after_crash")
    s = find_stmt(fn, lambda s: isinstance(s, ast.Assign) and norm(s.targets[0]).endswith("maximum_search_time"))
    return replace_node(mod, s.value, "round(remaining_time)")


@variant("C33", "recurse-without-restart", MA, "C33.recurse", "get_result waits again even when the restart failed")
def _v7(repo, mod):
    fn = repo.func(MA, "RunningTask.get_result")
    s = find_stmt(fn, lambda s: isinstance(s, ast.If) and norm(s.test) == "not success")
    return replace_node(mod, s.test, "not success and self._restart_count > 3")


@variant("C33", "eof-swallowed", MA, "C33.recurse", "EOFError handled without restart")
def _v8(repo, mod):
    fn = repo.func(MA, "RunningTask.get_result")
    tr = find_stmt(fn, lambda s: isinstance(s, ast.Try))
    h = tr.handlers[0]
    ind = " " * h.col_offset
    return insert_before(mod, h, f"except EOFError:\n    return self._last_result")


@variant("C33", "master-reports-ok", MA, "C33.codes", "unknown task answered with OK")
def _v9(repo, mod):
    fn = repo.func(MA, "MasterProcess.get_result")
    c = find_node(fn, lambda n: isinstance(n, ast.Call) and norm(n.func) == "WorkerResult")
    kw = next(k for k in c.keywords if k.arg == "worker_return_code")
    return replace_node(mod, kw.value, "WorkerReturnCode.OK")


@variant("C33", "client-ok-without-code", CL, "C33.codes", "missing return code reported as success")
def _v10(repo, mod):
    fn = repo.func(CL, "PynguinClient.run_pynguin")
    s = find_stmt(fn, lambda s: isinstance(s, ast.If) and norm(s.test) == "result.return_code is None")
    return replace_node(mod, s.body[0], "return ReturnCode.OK")


@variant("C33", "twin-rename-local", MA, None, "behaviour-preserving: elapsed bound to another local name first")
def _v11(repo, mod):
    fn = repo.func(MA, "RunningTask._adjust_search_time_after_crash")
    s = find_stmt(fn, lambda s: isinstance(s, ast.Assign) and norm(s.targets[0]) == "remaining_time")
    return replace_node(mod, s, "spent = elapsed_time\n            remaining_time = max(current_search_time - spent, 0.0)")


@variant("C33", "blocking-recv-without-liveness", MA, "C33.liveness", "recv() waits for EOF only (the repaired defect)")
def _v30(repo, mod):
    fn = repo.func(MA, "RunningTask.get_result")
    lp = find_stmt(fn, lambda s: isinstance(s, ast.While))
    return delete_stmt(mod, lp)


@variant("C33", "wait-loop-ignores-dead-worker", MA, "C33.liveness", "the poll loop never looks at the worker process")
def _v31(repo, mod):
    fn = repo.func(MA, "RunningTask.get_result")
    lp = find_stmt(fn, lambda s: isinstance(s, ast.While))
    return replace_node(mod, lp.body[0], "pass")


@variant("C33", "wait-loop-ends-while-worker-alive", MA, "C33.liveness", "the liveness test is inverted: a living worker counts as dead, a dead one is waited for")
def _v32(repo, mod):
    fn = repo.func(MA, "RunningTask.get_result")
    lp = find_stmt(fn, lambda s: isinstance(s, ast.While))
    c = find_node(lp, lambda n: isinstance(n, ast.UnaryOp) and isinstance(n.op, ast.Not) and "is_alive" in norm(n))
    return replace_node(mod, c, "self._worker_process.is_alive()")


@variant("C33", "twin-wait-with-other-timeout", MA, None, "another poll interval and a local for the process stay silent")
def _v33(repo, mod):
    fn = repo.func(MA, "RunningTask.get_result")
    lp = find_stmt(fn, lambda s: isinstance(s, ast.While))
    return replace_node(mod, lp.test.operand.args[0], "0.25")


@variant("C33", "running-time-on-the-wall-clock", "pynguin.master_worker.master", "C33.monotonic", "time.time() for the elapsed time (the repaired defect)")
def _v50(repo, mod):
    from sa.selftest.harness import text_edit
    return text_edit(mod, "elapsed_time = time.monotonic() - self._start_time", "elapsed_time = time.time() - self._start_time")
