import ast

from sa.engine.index import norm
from sa.selftest.harness import delete_stmt, find_node, find_stmt, insert_before, replace_node, replace_nodes, sub_in_node, variant

LG = "pynguin.testcase.literalgen"
ML = "pynguin.utils.pynguinml.ndarray_cst"


@variant("C23", "negative-zero-loses-sign", LG, "C23", "sign test by `< 0` (the repaired defect)")
def _v1(repo, mod):
    fn = repo.func(LG, "_float_to_cst")
    s = find_stmt(fn, lambda s: isinstance(s, ast.If) and "copysign" in norm(s.test))
    return replace_node(mod, s.test, "value < 0")


@variant("C23", "non-finite-not-parsed", LG, "C23.parse", "parser no longer accepts float('inf') (the repaired defect)")
def _v2(repo, mod):
    fn = repo.func(LG, "_parse_float")
    s = find_stmt(fn, lambda s: isinstance(s, ast.If) and "expr.func.value == 'float'" in norm(s.test))
    return delete_stmt(mod, s)


@variant("C23", "renderer-memoised", LG, "C23.uncached", "lru_cache on _float_to_cst: 0.0 and -0.0 share a slot")
def _v3(repo, mod):
    fn = repo.func(LG, "_float_to_cst")
    return insert_before(mod, fn, "@functools.lru_cache(maxsize=1024)")


@variant("C23", "ml-twin-double-sign", ML, "C23.ml-twin", "ML renderer renders float(repr(value)) with the sign and negates again")
def _v4(repo, mod):
    fn = repo.func(ML, "_float_to_cst")
    c = find_node(fn, lambda n: isinstance(n, ast.Call) and norm(n.func) == "repr" and norm(n.args[0]) == "repr(abs_val)")
    return replace_node(mod, c, "repr(repr(value))")


@variant("C23", "int-before-bool", LG, "C23", "literal_to_cst tests int before bool")
def _v5(repo, mod):
    fn = repo.func(LG, "literal_to_cst")
    b = find_stmt(fn, lambda s: isinstance(s, ast.If) and norm(s.test) == "isinstance(value, bool)")
    i = find_stmt(fn, lambda s: isinstance(s, ast.If) and norm(s.test) == "isinstance(value, int)")
    return replace_nodes(mod, [(b, mod.segment(i)), (i, mod.segment(b))])


@variant("C23", "negative-int-loses-sign", LG, "C23", "negative ints rendered by their absolute value")
def _v6(repo, mod):
    fn = repo.func(LG, "_int_to_cst")
    s = find_stmt(fn, lambda s: isinstance(s, ast.If) and norm(s.test) == "value < 0")
    return replace_node(mod, s.test, "value < -1")


@variant("C23", "twin-unused-local", LG, None, "behaviour-preserving edit")
def _v7(repo, mod):
    fn = repo.func(LG, "_float_to_cst")
    return insert_before(mod, fn.body[-1], "_unused = abs_val")


@variant("C23", "collection-size-zero-empty-range", LG, "C23.generate", "list size drawn from an empty range when collection_size is 0 (the repaired defect)")
def _v30(repo, mod):
    fn = repo.func(LG, "_gen_list")
    s = find_stmt(fn, lambda s: isinstance(s, ast.If) and "max_count" in norm(s.test))
    return replace_node(mod, s.test, "randomness.next_bool()")


@variant("C23", "string-length-zero-empty-range", LG, "C23.generate", "string length drawn from randrange(0, 0) (the repaired defect)")
def _v31(repo, mod):
    fn = repo.func(LG, "_gen_str")
    c = find_node(fn, lambda n: isinstance(n, ast.Call) and norm(n.func) == "max" and "string_length" in norm(n))
    return replace_node(mod, c, "tc.string_length")


@variant("C23", "tuple-request-answered-with-a-list", LG, "C23.generate", "generate_literal(tuple) yields a list display")
def _v32(repo, mod):
    fn = repo.func(LG, "generate_literal")
    s = find_stmt(fn, lambda s: isinstance(s, ast.If) and norm(s.test) == "raw is tuple")
    return replace_node(mod, s.body[0].value, "_gen_list(constant_provider, element_pool)")


@variant("C23", "collection-larger-than-configured", LG, "C23.generate", "sets get up to three elements whatever the configured maximum")
def _v33(repo, mod):
    fn = repo.func(LG, "_gen_set")
    s = find_stmt(fn, lambda s: isinstance(s, ast.Assign) and norm(s.targets[0]) == "max_count")
    return replace_node(mod, s.value, "3")


@variant("C23", "twin-size-clamped-differently", LG, None, "the same bound written with a conditional expression stays silent")
def _v34(repo, mod):
    fn = repo.func(LG, "_gen_str")
    c = find_node(fn, lambda n: isinstance(n, ast.Call) and norm(n.func) == "max" and "string_length" in norm(n))
    return replace_node(mod, c, "(tc.string_length if tc.string_length > 0 else 1)")


TFM = "pynguin.testcase.testfactory"


@variant("C23", "mutated-tuple-payload-rendered-as-list", TFM, "C23.ml-mutate", "the mutated elements are re-wrapped in the type of the helper's list")
def _v40(repo, mod):
    fn = repo.func(TFM, "MLTestFactory._mutated_ml_expr")
    s = find_stmt(fn, lambda s: isinstance(s, ast.AnnAssign) and norm(s.target) == "payload")
    return replace_node(mod, s.value, "type(elements)(elements)")


@variant("C23", "twin-payload-by-conditional-statement", TFM, None, "the same re-wrapping written as an if statement stays silent")
def _v41(repo, mod):
    fn = repo.func(TFM, "MLTestFactory._mutated_ml_expr")
    s = find_stmt(fn, lambda s: isinstance(s, ast.AnnAssign) and norm(s.target) == "payload")
    return replace_node(mod, s.value, "elements if not info.is_tuple else tuple(elements)")


@variant("C23", "int-literals-read-in-base-ten", "pynguin.testcase.literalgen", "C23.parse", "0xFF crashes the parser (the repaired defect)")
def _v50(repo, mod):
    from sa.selftest.harness import text_edit
    return text_edit(mod, "        return int(expr.value, 0)\n", "        return int(expr.value)\n")


@variant("C23", "empty-bare-tuple", "pynguin.testcase.literalgen", "C23.generate", "a tuple without parentheses is emptied without adding them (the repaired defect)")
def _v51(repo, mod):
    from sa.selftest.harness import text_edit
    return text_edit(mod, "        lpar=expr.lpar or [cst.LeftParen()],\n        rpar=expr.rpar or [cst.RightParen()],\n", "")


@variant("C23", "nan-write-refused", "pynguin.testcase.localsearchstatement", "C23.parse", "set_literal_value re-parses and compares with != (seed C23-e)")
def _v52(repo, mod):
    fn = repo.func("pynguin.testcase.localsearchstatement", "set_literal_value")
    r = find_stmt(fn, lambda s: isinstance(s, ast.Return))
    return replace_node(mod, r, "expr = literalgen.literal_to_cst(value)\n    if literalgen.parse_literal(expr, type(value)) != value:\n        return False\n    return _replace_rhs(test_case, position, expr)")
