import ast

from sa.engine.index import norm
from sa.selftest.harness import delete_stmt, find_node, find_stmt, insert_before, replace_node, replace_nodes, sub_in_node, variant

DS = "pynguin.slicer.dynamicslicer"
EFB = "pynguin.slicer.executionflowbuilder"
P312 = "pynguin.instrumentation.version.python3_12"


@variant("C09", "super-attr-not-traced", P312, "C09.groups", "TRACED_NAMES built from the 3.10 attribute opcodes")
def _v1(repo, mod):
    e = mod.assigns["TRACED_NAMES"]
    n = find_node(e, lambda x: isinstance(x, ast.Name) and x.id == "ATTRIBUTES_NAMES")
    return replace_node(mod, n, "python3_10.ATTRIBUTES_NAMES")


@variant("C09", "checked-loads-are-no-uses", P312, "C09.groups", "MEMORY_USE_NAMES starts with the 3.11 LOAD_FAST names (seed C09-b)")
def _v2(repo, mod):
    e = mod.assigns["MEMORY_USE_NAMES"]
    n = find_node(e, lambda x: isinstance(x, ast.Name) and x.id == "LOAD_FAST_NAMES")
    return replace_node(mod, n, "python3_11.LOAD_FAST_NAMES")


@variant("C09", "subscript-stores-define-nothing", P312, "C09.groups", "MEMORY_DEF_NAMES without the subscript instructions")
def _v3(repo, mod):
    e = mod.assigns["MEMORY_DEF_NAMES"]
    n = find_node(e, lambda x: isinstance(x, ast.Attribute) and norm(x) == "python3_10.ACCESS_SUBSCR_NAMES")
    return replace_node(mod, n, "()")


@variant("C09", "binary-slice-as-store", P312, "C09.groups", "STORE_NAMES lists BINARY_SLICE")
def _v4(repo, mod):
    e = mod.assigns["STORE_NAMES"]
    n = find_node(e, lambda x: isinstance(x, ast.Name) and x.id == "STORE_SLICE_NAMES")
    return replace_node(mod, n, "BINARY_SLICE_NAMES")


@variant("C09", "is-def-reads-use-table", EFB, "C09.groups", "UniqueInstruction.is_def tests the use table")
def _v5(repo, mod):
    fn = repo.func(EFB, "UniqueInstruction.is_def")
    r = find_node(fn, lambda x: isinstance(x, ast.Return))
    return replace_node(mod, r.value, "self.name in MEMORY_USE_NAMES")


@variant("C09", "binary-slice-pops-two", P312, "C09.stackfx", "BINARY_SLICE modelled with two operands")
def _v6(repo, mod):
    fn = repo.func(P312, "stack_effects")
    c = find_node(fn, lambda x: isinstance(x, ast.match_case) and isinstance(x.pattern, ast.MatchValue) and x.pattern.value.value == "BINARY_SLICE")
    call = find_node(c, lambda x: isinstance(x, ast.Call) and norm(x.func) == "StackEffects")
    return replace_node(mod, call.args[0], "2")


@variant("C09", "call-forgets-self-slot", P312, "C09.stackfx", "CALL pops 1 + arg")
def _v7(repo, mod):
    fn = repo.func(P312, "stack_effects")
    c = find_node(fn, lambda x: isinstance(x, ast.match_case) and isinstance(x.pattern, ast.MatchValue) and x.pattern.value.value == "CALL")
    b = find_node(c, lambda x: isinstance(x, ast.BinOp) and norm(x) == "2 + arg")
    return replace_node(mod, b, "1 + arg")


@variant("C09", "partial-cover-kills-address-use", DS, "C09.kill", "partial cover through the removing helper (seed C09-a)")
def _v8(repo, mod):
    fn = repo.func(DS, "DynamicSlicer.check_explicit_data_dependency")
    c = find_node(fn, lambda x: isinstance(x, ast.Compare) and norm(x) == "hex(traced_instr.src_address) in context.var_address_uses")
    return replace_node(mod, c, "self._check_scope_for_def(context.var_address_uses, hex(traced_instr.src_address), None, None)")


@variant("C09", "definitions-never-kill", DS, "C09.kill", "_check_scope_for_def leaves the satisfied uses pending")
def _v9(repo, mod):
    fn = repo.func(DS, "DynamicSlicer._check_scope_for_def")
    loops = [n for n in fn.body if isinstance(n, ast.For)]
    return delete_stmt(mod, loops[-1])


@variant("C09", "global-scope-by-code-object", DS, "C09.kill", "global definitions matched by code object instead of file")
def _v10(repo, mod):
    fn = repo.func(DS, "DynamicSlicer._check_variables")
    i = find_node(fn, lambda x: isinstance(x, ast.If) and norm(x.test) == "name in MODIFY_GLOBAL_NAMES")
    c = find_node(i.body[0], lambda x: isinstance(x, ast.Call))
    return replace_node(mod, c.args[2], "code_object_id")


@variant("C09", "attribute-def-matches-any-object", DS, "C09.kill", "attribute definitions matched by attribute name only")
def _v11(repo, mod):
    fn = repo.func(DS, "DynamicSlicer.check_explicit_data_dependency")
    i = find_node(fn, lambda x: isinstance(x, ast.If) and norm(x.test) == "traced_instr.combined_attr in context.attr_uses")
    return replace_node(mod, i.test, "any(use.endswith('_' + str(traced_instr.argument)) for use in context.attr_uses)")


@variant("C09", "test-statements-mapped-to-lines", DS, "C09.lines", "instructions of test statements are looked up as lines of the module")
def _v12(repo, mod):
    fn = repo.func(DS, "DynamicSlicer.map_instructions_to_lines")
    i = find_node(fn, lambda x: isinstance(x, ast.If) and "AST_FILENAME" in norm(x.test))
    return replace_node(mod, i.test, "False")


@variant("C09", "lines-by-number-only", DS, "C09.lines", "line ids looked up by line number regardless of the file")
def _v13(repo, mod):
    fn = repo.func(DS, "DynamicSlicer.get_line_id_by_instruction")
    b = find_node(fn, lambda x: isinstance(x, ast.BoolOp))
    return replace_node(mod, b, "line_meta.line_number <= instruction.lineno")


@variant("C09", "twin-use-table-reordered", P312, None, "behaviour-preserving: operands of the tuple concatenation reordered")
def _v14(repo, mod):
    e = mod.assigns["MEMORY_USE_NAMES"]
    a = find_node(e, lambda x: isinstance(x, ast.Name) and x.id == "LOAD_FAST_NAMES")
    b = find_node(e, lambda x: isinstance(x, ast.Name) and x.id == "BINARY_SLICE_NAMES")
    return replace_nodes(mod, [(a, "BINARY_SLICE_NAMES"), (b, "LOAD_FAST_NAMES")])


@variant("C09", "twin-partial-cover-local", DS, None, "behaviour-preserving: membership test bound to a local first")
def _v15(repo, mod):
    fn = repo.func(DS, "DynamicSlicer.check_explicit_data_dependency")
    c = find_node(fn, lambda x: isinstance(x, ast.Compare) and norm(x) == "hex(traced_instr.src_address) in context.var_address_uses")
    return replace_node(mod, c, "(hex(traced_instr.src_address) in set(context.var_address_uses))")


@variant("C09", "jump-target-cache-by-node", EFB, "C09.node-key", "per-node cache on the flow builder (seed C09-c)")
def _v16(repo, mod):
    fn = repo.func(EFB, "ExecutionFlowBuilder._create_unique_instruction")
    s = find_stmt(fn, lambda s: isinstance(s, ast.Assign) and norm(s.targets[0]) == "is_jump_target")
    return insert_before(mod, s, "self._seen_nodes = getattr(self, '_seen_nodes', {})\nself._seen_nodes[node] = True")


@variant("C09", "delete-subscr-traces-the-key", "pynguin.instrumentation.version.python3_10", "C09.operands", "DELETE_SUBSCR reports the key as the modified object (seed C09-d)")
def _v17(repo, mod):
    fn = repo.func("pynguin.instrumentation.version.python3_10", "CheckedCoverageInstrumentation.visit_subscr_access")
    a = find_node(fn, lambda n: isinstance(n, ast.Attribute) and norm(n) == "InstrumentationSetupAction.COPY_SECOND_SHIFT_DOWN_TWO")
    return replace_node(mod, a, "InstrumentationSetupAction.COPY_FIRST_SHIFT_DOWN_TWO")


@variant("C09", "binary-subscr-traces-the-key", "pynguin.instrumentation.version.python3_10", "C09.operands", "BINARY_SUBSCR reports the key")
def _v18(repo, mod):
    fn = repo.func("pynguin.instrumentation.version.python3_10", "CheckedCoverageInstrumentation.visit_subscr_access")
    a = find_node(fn, lambda n: isinstance(n, ast.Attribute) and norm(n) == "InstrumentationSetupAction.COPY_SECOND")
    return replace_node(mod, a, "InstrumentationSetupAction.COPY_FIRST")


@variant("C09", "frame-flag-accumulated-in-a-scalar", "pynguin.slicer.dynamicslicer", "C09.frame-flag", "per-frame information kept in one scalar (seed C09-e)")
def _v50(repo, mod):
    fn = repo.func("pynguin.slicer.dynamicslicer", "DynamicSlicer.slice")
    s = find_stmt(fn, lambda s: isinstance(s, ast.Assign) and norm(s.targets[0]) == "slc.code_object_dependent" and "state.returned" in norm(s.value))
    return replace_node(mod, s.value, "slc.code_object_dependent or criterion_in_slice")
