import ast

from sa.engine.index import norm
from sa.selftest.harness import delete_stmt, find_node, find_stmt, insert_before, replace_node, replace_nodes, sub_in_node, variant

TS = "pynguin.analyses.typesystem"


@variant("C25", "union-any-in-strict-visitor", TS, "C25.union-all", "strict visitor accepts a union when some member fits")
def _v1(repo, mod):
    fn = repo.methods(repo.cls(TS, "_SubtypeVisitor"))["visit_union_type"]
    return sub_in_node(mod, fn.body[-1], "all(", "any(")


@variant("C25", "tuple-arity-ignored", TS, "C25", "tuples of different length compared by their common prefix")
def _v2(repo, mod):
    fn = repo.methods(repo.cls(TS, "_SubtypeVisitor"))["visit_tuple_type"]
    s = find_stmt(fn, lambda s: isinstance(s, ast.If) and "len(left.args)" in norm(s.test))
    return replace_nodes(mod, [(s, "pass"), (find_node(fn, lambda n: isinstance(n, ast.keyword) and n.arg == "strict").value, "False")])


@variant("C25", "subclass-direction-swapped", TS, "C25.class-agree", "instance arm asks is_subclass(right, left)")
def _v3(repo, mod):
    fn = repo.methods(repo.cls(TS, "_SubtypeVisitor"))["visit_instance"]
    c = find_node(fn, lambda n: isinstance(n, ast.Call) and norm(n.func) == "self.graph.is_subclass")
    return replace_node(mod, c, "self.graph.is_subclass(self.right.type, left.type)")


@variant("C25", "any-test-after-union", TS, "C25.shape", "union shortcut placed before the Any test")
def _v4(repo, mod):
    fn = repo.func(TS, "TypeSystem.is_subtype")
    a = find_stmt(fn, lambda s: isinstance(s, ast.If) and norm(s.test) == "isinstance(right, AnyType)")
    u = find_stmt(fn, lambda s: isinstance(s, ast.If) and "UnionType" in norm(s.test))
    return replace_nodes(mod, [(a, mod.segment(u)), (u, mod.segment(a))])


@variant("C25", "distance-ignores-unconnected-elements", TS, "C25.distance-defined", "tuple distance sums only the connected element pairs")
def _v5(repo, mod):
    fn = repo.methods(repo.cls(TS, "_SubtypeDistanceVisitor"))["visit_tuple_type"]
    s = find_stmt(fn, lambda s: isinstance(s, ast.If) and norm(s.test) == "any((dist is None for dist in distances))")
    ret = find_stmt(fn, lambda s: isinstance(s, ast.Return) and norm(s.value).startswith("sum(distances)"))
    return replace_nodes(mod, [(s, "pass"), (ret, "return sum(d for d in distances if d is not None)")])


@variant("C25", "twin-unused-local", TS, None, "behaviour-preserving edit")
def _v7(repo, mod):
    fn = repo.func(TS, "TypeSystem.is_subtype")
    return insert_before(mod, fn.body[-1], "_unused = left")


MODM = "pynguin.analyses.module"


@variant("C25", "strict-union-shortcut-uses-lenient-relation", TS, "C25.union-target", "is_subtype recurses with is_maybe_subtype for union targets (copy-paste from the twin)")
def _v30(repo, mod):
    fn = repo.func(TS, "TypeSystem.is_subtype")
    c = find_node(fn, lambda n: isinstance(n, ast.Call) and norm(n.func) == "self.is_subtype" and "right_elem" in norm(n))
    return replace_node(mod, c.func, "self.is_maybe_subtype")


@variant("C25", "lenient-union-shortcut-uses-strict-relation", TS, "C25.union-target", "is_maybe_subtype recurses with is_subtype for union targets")
def _v31(repo, mod):
    fn = repo.func(TS, "TypeSystem.is_maybe_subtype")
    c = find_node(fn, lambda n: isinstance(n, ast.Call) and norm(n.func) == "self.is_maybe_subtype" and "right_elem" in norm(n))
    return replace_node(mod, c.func, "self.is_subtype")


@variant("C25", "edges-from-inherited-orig-bases", MODM, "C25.edges", "subclass edges drawn from getattr(cls, '__orig_bases__', ...)")
def _v32(repo, mod):
    fn = repo.func(MODM, "__analyse_included_classes")
    lp = find_stmt(fn, lambda s: isinstance(s, ast.For) and norm(s.iter) == "current.__bases__")
    return replace_node(mod, lp.iter, 'getattr(current, "__orig_bases__", current.__bases__)')


@variant("C25", "twin-edges-from-own-orig-bases", MODM, None, "the class's own __orig_bases__ read from its __dict__ stays silent")
def _v33(repo, mod):
    fn = repo.func(MODM, "__analyse_included_classes")
    lp = find_stmt(fn, lambda s: isinstance(s, ast.For) and norm(s.iter) == "current.__bases__")
    return replace_node(mod, lp.iter, 'current.__dict__.get("__orig_bases__", current.__bases__) and current.__bases__')
