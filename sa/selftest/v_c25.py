import ast

from sa.engine.index import norm
from sa.selftest.harness import delete_stmt, find_node, find_stmt, insert_before, replace_node, replace_nodes, sub_in_node, variant

TS = "pynguin.analyses.typesystem"


@variant("C25", "union-any-in-strict-visitor", TS, "C25.union-all", "strict visitor accepts a union when some member fits")
def _v1(repo, mod):
    fn = repo.methods(repo.cls(TS, "_SubtypeVisitor"))["visit_union_type"]
    return sub_in_node(mod, fn.body[-1], "all(", "any(")


@variant("C25", "tuple-arity-ignored", TS, "C25", "tuples of different length compared by their common prefix")
def _v2(repo, mod):
    fn = repo.methods(repo.cls(TS, "_SubtypeVisitor"))["visit_tuple_type"]
    s = find_stmt(fn, lambda s: isinstance(s, ast.If) and "len(left.args)" in norm(s.test))
    return replace_nodes(mod, [(s, "pass"), (find_node(fn, lambda n: isinstance(n, ast.keyword) and n.arg == "strict").value, "False")])


@variant("C25", "subclass-direction-swapped", TS, "C25.class-agree", "instance arm asks is_subclass(right, left)")
def _v3(repo, mod):
    fn = repo.methods(repo.cls(TS, "_SubtypeVisitor"))["visit_instance"]
    c = find_node(fn, lambda n: isinstance(n, ast.Call) and norm(n.func) == "self.graph.is_subclass")
    return replace_node(mod, c, "self.graph.is_subclass(self.right.type, left.type)")


@variant("C25", "any-test-after-union", TS, "C25.shape", "union shortcut placed before the Any test")
def _v4(repo, mod):
    fn = repo.func(TS, "TypeSystem.is_subtype")
    a = find_stmt(fn, lambda s: isinstance(s, ast.If) and norm(s.test) == "isinstance(right, AnyType)")
    u = find_stmt(fn, lambda s: isinstance(s, ast.If) and "UnionType" in norm(s.test))
    return replace_nodes(mod, [(a, mod.segment(u)), (u, mod.segment(a))])


@variant("C25", "distance-ignores-unconnected-elements", TS, "C25.distance-defined", "tuple distance sums only the connected element pairs")
def _v5(repo, mod):
    fn = repo.methods(repo.cls(TS, "_SubtypeDistanceVisitor"))["visit_tuple_type"]
    s = find_stmt(fn, lambda s: isinstance(s, ast.If) and norm(s.test) == "any((dist is None for dist in distances))")
    ret = find_stmt(fn, lambda s: isinstance(s, ast.Return) and norm(s.value).startswith("sum(distances)"))
    return replace_nodes(mod, [(s, "pass"), (ret, "return sum(d for d in distances if d is not None)")])


@variant("C25", "twin-unused-local", TS, None, "behaviour-preserving edit")
def _v7(repo, mod):
    fn = repo.func(TS, "TypeSystem.is_subtype")
    return insert_before(mod, fn.body[-1], "_unused = left")
