import ast

from sa.engine.index import norm
from sa.selftest.harness import delete_stmt, find_node, find_stmt, insert_before, replace_node, replace_nodes, sub_in_node, variant

TR = "pynguin.instrumentation.tracer"
CF = "pynguin.instrumentation.controlflow"
TU = "pynguin.utils.type_utils"
CG = "pynguin.ga.coveragegoals"
P310 = "pynguin.instrumentation.version.python3_10"
P311 = "pynguin.instrumentation.version.python3_11"
P312 = "pynguin.instrumentation.version.python3_12"


@variant("C03", "if-none-labelled-like-if-false", P312, "C03.polarity", "POP_JUMP_IF_NONE grouped with POP_JUMP_IF_FALSE again")
def _v1(repo, mod):
    fn = repo.func(P312, "get_branch_type")
    arms = [c for c in ast.walk(fn) if isinstance(c, ast.match_case) and isinstance(c.pattern, ast.MatchOr)]
    t, f = arms[0], arms[1]
    return replace_nodes(mod, [(t.pattern, '"POP_JUMP_IF_TRUE" | "POP_JUMP_IF_NOT_NONE"'), (f.pattern, '"POP_JUMP_IF_FALSE" | "POP_JUMP_IF_NONE" | "FOR_ITER"')])


@variant("C03", "none-mapping-swapped", P312, "C03.polarity", "IS and IS_NOT swapped in the none-based mapping")
def _v2(repo, mod):
    cls = repo.cls(P312, "BranchCoverageInstrumentation")
    d = find_node(cls, lambda n: isinstance(n, ast.Dict))
    return replace_nodes(mod, [(d.values[0], "PynguinCompare.IS"), (d.values[1], "PynguinCompare.IS_NOT")])


@variant("C03", "bool-distances-swapped", TR, "C03.polarity", "executed_bool_predicate reports a truthy value as the false outcome")
def _v3(repo, mod):
    fn = repo.func(TR, "ExecutionTracer.executed_bool_predicate")
    c = find_node(fn, lambda n: isinstance(n, ast.Call) and norm(n.func) == "self._update_metrics")
    return replace_nodes(mod, [(c.args[0], "distance_true"), (c.args[1], "distance_false")])


@variant("C03", "cfg-labels-swapped", CF, "C03.polarity", "true and false branch assigned the other way round")
def _v4(repo, mod):
    fn = repo.func(CF, "CFG._create_nodes_and_edges")
    i = find_stmt(fn, lambda s: isinstance(s, ast.If) and norm(s.test) == "is_true_branch")
    return replace_node(mod, i.test, "not is_true_branch")


@variant("C03", "for-body-reports-false", P310, "C03.polarity", "for-loop body reports the false outcome")
def _v5(repo, mod):
    fn = repo.func(P310, "BranchCoverageInstrumentation.visit_for_loop_body")
    c = find_node(fn, lambda n: isinstance(n, ast.Call) and norm(n.func).endswith("InstrumentationConstantLoad") and isinstance(n.keywords[0].value, ast.Constant) and n.keywords[0].value.value is True)
    fn2 = repo.func(P310, "BranchCoverageInstrumentation.visit_for_loop_natural_exit")
    c2 = find_node(fn2, lambda n: isinstance(n, ast.Call) and norm(n.func).endswith("InstrumentationConstantLoad") and isinstance(n.keywords[0].value, ast.Constant) and n.keywords[0].value.value is False)
    return replace_nodes(mod, [(c.keywords[0].value, "False"), (c2.keywords[0].value, "True")])


@variant("C03", "cond-names-miss-opcode", P312, "C03.exhaustive", "POP_JUMP_IF_NONE dropped from COND_BRANCH_NAMES")
def _v6(repo, mod):
    e = mod.assigns["COND_BRANCH_NAMES"]
    c = find_node(e, lambda n: isinstance(n, ast.Constant) and n.value == "POP_JUMP_IF_NONE")
    return replace_node(mod, c, '"POP_JUMP_IF_TRUE"')


@variant("C03", "compare-operands-swapped", P310, "C03.operands", "comparison reported as (right, left)")
def _v7(repo, mod):
    fn = repo.func(P310, "BranchCoverageInstrumentation.visit_compare_based_conditional_jump")
    t = find_node(fn, lambda n: isinstance(n, ast.Tuple) and len(n.elts) == 4)
    return replace_nodes(mod, [(t.elts[0], "InstrumentationStackValue.FIRST"), (t.elts[1], "InstrumentationStackValue.SECOND")])


@variant("C03", "bool-visitor-not-registering", P310, "C03.registered", "bool-based visitor uses a constant predicate id")
def _v8(repo, mod):
    fn = repo.func(P310, "BranchCoverageInstrumentation.visit_bool_based_conditional_jump")
    s = find_stmt(fn, lambda s: isinstance(s, ast.Assign) and norm(s.targets[0]) == "predicate_id")
    return replace_node(mod, s.value, "0")


@variant("C03", "visit-node-skips-backward-jumps", P311, "C03.registered", "visit_node returns early for a class of blocks")
def _v9(repo, mod):
    fn = repo.func(P311, "BranchCoverageInstrumentation.visit_node")
    s = find_stmt(fn, lambda s: isinstance(s, ast.If) and norm(s.test) == "maybe_jump.name == 'FOR_ITER'")
    return insert_before(mod, s, 'if maybe_jump.name.endswith("_OR_POP"):\n    return')


@variant("C03", "goal-reads-other-map", CG, "C03.goals", "BranchGoal.is_covered reads the false distances for the true goal")
def _v10(repo, mod):
    fn = repo.func(CG, "BranchGoal.is_covered")
    e = find_node(fn, lambda n: isinstance(n, ast.IfExp))
    return replace_node(mod, e.test, "not self._value")


@variant("C03", "only-true-goals", CG, "C03.goals", "only the true outcome becomes a goal")
def _v11(repo, mod):
    fn = repo.func(CG, "BranchGoalPool._compute_branch_goals")
    cs = [c for c in ast.walk(fn) if isinstance(c, ast.Call) and norm(c.func) == "BranchGoal"]
    return replace_node(mod, cs[1].keywords[0].value, "True")


@variant("C03", "exception-match-by-mro", TU, "C03.goals", "exception matching through __mro__ (seed C03-b)")
def _v12(repo, mod):
    fn = repo.func(TU, "given_exception_matches")
    from sa.selftest.harness import replace_nodes
    tup = find_stmt(fn, lambda s: isinstance(s, ast.If) and "tuple" in norm(s.test))
    fallback = find_stmt(fn, lambda s: isinstance(s, ast.If) and norm(s.test) == "not isclass(exc)")
    return replace_nodes(mod, [(tup, "pass"), (fallback, "pass"), (fn.body[-1], "return exc in err.__mro__")])


@variant("C03", "disable-without-finally", TR, "C03.restore", "temporarily_disable re-enables only on normal exit (seed C03-a)")
def _v13(repo, mod):
    fn = repo.func(TR, "AbstractExecutionTracer.temporarily_disable")
    t = find_stmt(fn, lambda s: isinstance(s, ast.Try))
    return replace_node(mod, t, "yield\n        self.enable()")


@variant("C03", "compare-outside-disable", TR, "C03.restore", "exception-match callback computes with tracing enabled")
def _v14(repo, mod):
    fn = repo.func(TR, "ExecutionTracer.executed_exception_match")
    w = find_stmt(fn, lambda s: isinstance(s, ast.With))
    return replace_node(mod, w.items[0].context_expr, "contextlib.nullcontext()")


@variant("C03", "twin-branch-type-arm-order", P312, None, "behaviour-preserving: arms of get_branch_type reordered")
def _v15(repo, mod):
    fn = repo.func(P312, "get_branch_type")
    arms = [c for c in ast.walk(fn) if isinstance(c, ast.match_case) and isinstance(c.pattern, ast.MatchOr)]
    t, f = arms[0], arms[1]
    tt, ft = mod.segment(t.pattern), mod.segment(f.pattern)
    tb, fb = mod.segment(t.body[-1]), mod.segment(f.body[-1])
    return replace_nodes(mod, [(t.pattern, ft), (t.body[-1], fb), (f.pattern, tt), (f.body[-1], tb)])


@variant("C03", "twin-issubclass-via-isinstance-of-type", TU, None, "behaviour-preserving: local alias in given_exception_matches")
def _v16(repo, mod):
    fn = repo.func(TU, "given_exception_matches")
    r = find_node(fn, lambda n: isinstance(n, ast.Return) and isinstance(n.value, ast.Call))
    return replace_node(mod, r, "matches = issubclass(err, exc)\n    return matches")


@variant("C03", "reset-keeps-old-import-trace", TR, "C03.fresh", "reset() re-initialises the recording trace before it discards the import trace (seed C03-c)")
def _v17(repo, mod):
    fn = repo.func(TR, "ExecutionTracer.reset")
    a, b = fn.body[-2], fn.body[-1]
    return replace_nodes(mod, [(a, mod.segment(b)), (b, mod.segment(a))])


@variant("C03", "init-trace-reuses-recording-trace", TR, "C03.fresh", "init_trace merges the import trace into the current trace instead of a new one")
def _v18(repo, mod):
    fn = repo.func(TR, "ExecutionTracer.init_trace")
    s = find_stmt(fn, lambda s: isinstance(s, ast.Assign) and norm(s.targets[0]) == "new_trace")
    return replace_node(mod, s.value, "self._thread_local_state.trace")


@variant("C03", "execution-trace-shares-the-import-predicates", TR, "C03.isolation", "the execution starts on the import trace itself: outcomes of one execution reach the next")
def _v50(repo, mod):
    fn = repo.func(TR, "ExecutionTracer.init_trace")
    s = find_stmt(fn, lambda s: isinstance(s, ast.Assign) and norm(s) == "new_trace = ExecutionTrace()")
    return replace_node(mod, s, "new_trace = self._import_trace")
