import ast

from sa.engine.index import norm
from sa.selftest.harness import delete_stmt, find_node, find_stmt, insert_before, replace_node, replace_nodes, sub_in_node, variant

RP = "pynguin.utils.report"


@variant("C35", "predicate-counts-dropped-on-code-object-line", RP, "C35.annotation", "second lookup becomes elif")
def _v1(repo, mod):
    fn = repo.func(RP, "_get_line_annotations_for_branch_coverage")
    s = find_stmt(fn, lambda s: isinstance(s, ast.If) and norm(s.test) == "lineno in predicate_coverage")
    return replace_node(mod, s, "el" + mod.segment(s))


@variant("C35", "covered-test-on-keys", RP, "C35.factors", ".items() dropped from the covered test")
def _v2(repo, mod):
    fn = repo.func(RP, "_get_line_to_branch_coverage")
    s = find_stmt(fn, lambda s: isinstance(s, ast.If) and "true_distances" in norm(s.test))
    return replace_node(mod, s.test, "(predicate, 0.0) in trace.true_distances")


@variant("C35", "one-branch-per-predicate", RP, "C35.factors", "existing=1 per predicate")
def _v3(repo, mod):
    fn = repo.func(RP, "_get_line_to_branch_coverage")
    c = find_node(fn, lambda n: isinstance(n, ast.Call) and norm(n) == "CoverageEntry(existing=2)")
    return replace_node(mod, c, "CoverageEntry(existing=1)")


@variant("C35", "totals-from-other-dictionary", RP, "C35.totals", "branch total summed over the code-object dictionary")
def _v4(repo, mod):
    fn = repo.func(RP, "get_coverage_report")
    lp = find_stmt(fn, lambda s: isinstance(s, ast.For) and norm(s.iter) == "line_to_branch_coverage.values()")
    return replace_node(mod, lp.iter, "line_to_branchless_code_object_coverage.values()")


@variant("C35", "report-skips-last-test", RP, "C35.same-metric", "the last test case's result is left out")
def _v5(repo, mod):
    fn = repo.func(RP, "get_coverage_report")
    lp = find_stmt(fn, lambda s: isinstance(s, ast.For) and norm(s.iter) == "suite.test_case_chromosomes")
    return replace_node(mod, lp.iter, "suite.test_case_chromosomes[:-1]")


@variant("C35", "memoised-source", RP, "C35.source", "source lines cached per module name")
def _v6(repo, mod):
    fn = repo.func(RP, "get_coverage_report")
    s = find_stmt(fn, lambda s: isinstance(s, ast.Assign) and norm(s.targets[0]) == "source")
    new = replace_node(mod, s.value, "list(_get_source_lines(config.configuration.module_name))")
    return new.replace("\ndef get_coverage_report(", "\n@functools.cache\ndef _get_source_lines(module_name):\n    return tuple(inspect.getsourcelines(sys.modules[module_name])[0])\n\n\ndef get_coverage_report(", 1).replace("import inspect\n", "import functools\nimport inspect\n", 1)


@variant("C35", "xml-forgets-code-objects", RP, "C35.xml", "branches-valid without branch-less code objects")
def _v7(repo, mod):
    fn = repo.func(RP, "render_xml_coverage_report")
    s = find_stmt(fn, lambda s: isinstance(s, ast.Assign) and norm(s.targets[0]) == "branches_valid")
    return replace_node(mod, s.value, 'f"{cov_report.branches.existing}"')


@variant("C35", "twin-unused-local", RP, None, "behaviour-preserving edit")
def _v8(repo, mod):
    fn = repo.func(RP, "_get_line_annotations_for_branch_coverage")
    return insert_before(mod, fn.body[-1], "_unused = lineno")


COMP = "pynguin.ga.computations"


@variant("C35", "xml-hits-overwritten-by-branch-part", RP, "C35.xml", "the branch part overwrites the hit taken from line coverage")
def _v30(repo, mod):
    fn = repo.func(RP, "render_xml_coverage_report")
    s = find_stmt(fn, lambda s: isinstance(s, ast.If) and norm(s.test) == "covered > 0")
    return replace_node(mod, s, 'attrib["hits"] = "1" if covered > 0 else "0"')


@variant("C35", "xml-lists-irrelevant-lines", RP, "C35.xml", "lines that carry nothing are listed")
def _v31(repo, mod):
    fn = repo.func(RP, "render_xml_coverage_report")
    s = find_stmt(fn, lambda s: isinstance(s, ast.If) and "total.existing == 0" in norm(s.test))
    return delete_stmt(mod, s)


@variant("C35", "stored-result-keeps-changed-flag", COMP, "C35.same-executions", "the suite runner stores the result and leaves the test case changed")
def _v32(repo, mod):
    fn = repo.func(COMP, "TestSuiteChromosomeComputation._run_test_suite_chromosome")
    s = find_stmt(fn, lambda s: isinstance(s, ast.Assign) and norm(s) == "test_case_chromosome.changed = False")
    return delete_stmt(mod, s)


@variant("C35", "html-lexer-strips-leading-blank-lines", "pynguin.utils.report", "C35.html", "default PythonLexer (stripnl=True) shifts the code against its markers (the repaired defect)")
def _v40(repo, mod):
    fn = repo.func("pynguin.utils.report", "render_coverage_report")
    k = find_node(fn, lambda n: isinstance(n, ast.keyword) and n.arg == "lexer")
    return replace_node(mod, k.value, "PythonLexer")


@variant("C35", "twin-lexer-through-a-lambda", "pynguin.utils.report", None, "same lexer options through a lambda")
def _v41(repo, mod):
    fn = repo.func("pynguin.utils.report", "render_coverage_report")
    k = find_node(fn, lambda n: isinstance(n, ast.keyword) and n.arg == "lexer")
    return replace_node(mod, k.value, "lambda: PythonLexer(stripnl=False)")


@variant("C35", "proxied-result-returned", "pynguin.testcase.execution", "C35.regular-result", "the type-tracing executor returns the proxied run (seed C35-e)")
def _v50(repo, mod):
    from sa.selftest.harness import text_edit
    return text_edit(mod, "                start = time.time_ns()\n                self._delegate.execute(test_case)\n", "                start = time.time_ns()\n                result = self._delegate.execute(test_case)\n")
