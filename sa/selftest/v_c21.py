import ast

from sa.engine.index import norm
from sa.selftest.harness import delete_stmt, find_node, find_stmt, insert_before, replace_node, replace_nodes, sub_in_node, variant

AG = "pynguin.assertion.assertiongenerator"
AT = "pynguin.assertion.assertion_trace"
GEN = "MutationAnalysisAssertionGenerator"


@variant("C21", "killed-includes-timeouts", AG, "C21.partition", "get_killed no longer excludes timed-out mutants")
def _v1(repo, mod):
    fn = repo.func(AG, "_MutationSummary.get_killed")
    c = find_node(fn, lambda n: isinstance(n, ast.ListComp))
    return replace_node(mod, c.generators[0].ifs[0], "info.killed_by")


@variant("C21", "score-over-all-created", AG, "C21.partition", "divisor ignores timed-out mutants")
def _v2(repo, mod):
    fn = repo.func(AG, "_MutationMetrics.get_score")
    s = find_stmt(fn, lambda s: isinstance(s, ast.Assign) and norm(s.targets[0]) == "divisor")
    return replace_node(mod, s.value, "self.num_created_mutants")


@variant("C21", "prune-on-overlap", AG, "C21.select", "an assertion is pruned when its kills merely overlap the others'")
def _v3(repo, mod):
    fn = repo.func(AG, "_select_minimal_assertions")
    s = find_stmt(fn, lambda s: isinstance(s, ast.If) and norm(s.test) == "kill_map[key] <= others")
    return replace_node(mod, s.test, "kill_map[key] & others")


@variant("C21", "errors-do-not-violate", AT, "C21.violated", "was_violated ignores erroring assertions")
def _v4(repo, mod):
    fn = repo.func(AT, "AssertionVerificationTrace.was_violated")
    return replace_node(mod, fn.body[-1], "return False")


@variant("C21", "kill-map-reads-failed-only", AG, "C21.violated", "kill map built from `.failed` only")
def _v5(repo, mod):
    fn = repo.func(AG, f"{GEN}.__build_kill_map")
    c = find_node(fn, lambda n: isinstance(n, ast.Call) and norm(n.func).endswith("was_violated"))
    return replace_node(mod, c, "(assertion_idx in result.assertion_verification_trace.failed.get(stmt_idx, ()))")


@variant("C21", "filter-results-misaligned", AG, "C21.zip", "filter results zipped with the unshuffled list")
def _v6(repo, mod):
    fn = repo.func(AG, "AssertionGenerator._add_assertions")
    z = [n for n in ast.walk(fn) if isinstance(n, ast.Call) and norm(n.func) == "zip" and "shuffled_copy" in norm(n)][0]
    return replace_node(mod, z.args[0], "test_cases")


@variant("C21", "kept-assertions-removed", AG, "C21.minimize", "removal condition inverted")
def _v7(repo, mod):
    fn = repo.func(AG, f"{GEN}.__minimize_assertions")
    s = find_stmt(fn, lambda s: isinstance(s, ast.If) and "not in keep" in norm(s.test))
    return replace_node(mod, s.test, "(stmt_idx, assertion_idx) in keep")


@variant("C21", "twin-unused-local", AG, None, "behaviour-preserving edit")
def _v8(repo, mod):
    fn = repo.func(AG, "_select_minimal_assertions")
    return insert_before(mod, fn.body[-1], "_unused = universe")


def _rm(repo):
    return repo.func(AG, "AssertionGenerator.__remove_non_holding_assertions")


@variant("C21", "erroring-assertions-kept-next-to-failed", AG, "C21.non-holding", "`elif` for the erroring assertions: kept when the statement also has a failed one")
def _v20(repo, mod):
    fn = _rm(repo)
    ifs = [s for s in ast.walk(fn) if isinstance(s, ast.If) and ".error" in norm(s.test)]
    from sa.selftest.harness import node_text
    return replace_node(mod, ifs[0], "el" + node_text(mod, ifs[0]))


@variant("C21", "removal-in-ascending-order", AG, "C21.non-holding", "positions removed front to back through a stale position map is fine, but removing by shifted index is not")
def _v21(repo, mod):
    fn = _rm(repo)
    c = find_node(fn, lambda n: isinstance(n, ast.Call) and norm(n.func).endswith("assertions.remove"))
    return replace_node(mod, c, "statement.assertions.pop(pos)").replace("sorted(to_delete, reverse=True)", "sorted(to_delete)")


@variant("C21", "twin-removal-by-key-ascending", AG, None, "removing by key in ascending order stays silent")
def _v22(repo, mod):
    fn = _rm(repo)
    lp = find_stmt(fn, lambda s: isinstance(s, ast.For) and "to_delete" in norm(s.iter))
    return replace_node(mod, lp.iter, "sorted(to_delete)")


@variant("C21", "invalid-mutant-gets-empty-column", AG, "C21.unchecked", "skip path returns a list instead of the skip token")
def _v40(repo, mod):
    fn = repo.func(AG, f"{GEN}._execute_test_case_on_mutant")
    r = find_stmt(fn, lambda s: isinstance(s, ast.Return) and norm(s) == "return None")
    return replace_node(mod, r, "return []")


@variant("C21", "counted-before-skip-test", AG, "C21.unchecked", "num_checked incremented before the None test")
def _v41(repo, mod):
    from sa.selftest.harness import text_edit
    return text_edit(mod, "            if tests_mutant_results is None:\n                continue\n            num_checked += 1\n", "            num_checked += 1\n            if tests_mutant_results is None:\n                continue\n")


@variant("C21", "twin-skip-test-nested", AG, None, "if-not-None nesting instead of continue")
def _v42(repo, mod):
    from sa.selftest.harness import text_edit
    return text_edit(mod, "            if tests_mutant_results is None:\n                continue\n            num_checked += 1\n            for i, test_mutant_results in enumerate(tests_mutant_results):\n                tests_mutants_results[i].append(test_mutant_results)\n",
                     "            if tests_mutant_results is not None:\n                num_checked += 1\n                for i, test_mutant_results in enumerate(tests_mutant_results):\n                    tests_mutants_results[i].append(test_mutant_results)\n")


@variant("C21", "rendered-source-memoised-by-assertion", "pynguin.assertion.assertiontraceobserver", "C21.own-rendering", "memo keyed by the assertion object (1 == True)")
def _v43(repo, mod):
    from sa.selftest.harness import text_edit
    return text_edit(mod, "            cst_node = assertion_to_cst(assertion)\n", "            if assertion in self._state.memo:\n                cst_node = self._state.memo[assertion]\n            else:\n                cst_node = self._state.memo.setdefault(assertion, assertion_to_cst(assertion))\n")
