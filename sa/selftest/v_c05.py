import ast

from sa.engine.index import norm
from sa.selftest.harness import delete_stmt, find_stmt, insert_before, replace_node, variant

T = "pynguin.instrumentation.tracer"
E = "pynguin.testcase.execution"


def _try_of(repo, name):
    fn = repo.func(T, f"AbstractExecutionTracer.{name}")
    return fn, find_stmt(fn, lambda s: isinstance(s, ast.Try))


@variant("C05", "drop-restore-in-disable", T, "C05.ctx", "delete self.enable() from the finally block")
def _v1(repo, mod):
    fn, tr = _try_of(repo, "temporarily_disable")
    return delete_stmt(mod, tr.finalbody[0])


@variant("C05", "restore-outside-finally", T, "C05.ctx", "yield; self.disable() without try/finally (the original defect)")
def _v2(repo, mod):
    fn, tr = _try_of(repo, "temporarily_enable")
    ind = " " * tr.col_offset
    return replace_node(mod, tr, f"yield\n{ind}{norm(tr.finalbody[0])}")


@variant("C05", "twin-log-line", T, None, "behaviour-preserving edit: extra local before the try")
def _v3(repo, mod):
    fn, tr = _try_of(repo, "temporarily_disable")
    return insert_before(mod, tr, "_unused = 1")


@variant("C05", "raw-disable-at-boundary", E, "C05.raw", "raw tracer.disable() in _before_statement_execution")
def _v4(repo, mod):
    fn = repo.func(E, "TestCaseExecutor._before_statement_execution")
    w = find_stmt(fn, lambda s: isinstance(s, ast.With))
    return insert_before(mod, w, "self._subject_properties.instrumentation_tracer.disable()")


@variant("C05", "cm-not-entered", E, "C05.cm-use", "temporarily_disable() called as a statement, never entered")
def _v5(repo, mod):
    fn = repo.func(E, "TestCaseExecutor._after_statement_execution")
    w = find_stmt(fn, lambda s: isinstance(s, ast.With))
    return insert_before(mod, w, "self._subject_properties.instrumentation_tracer.temporarily_disable()")


@variant("C05", "callback-outside-region", E, "C05.stmt-boundary", "observer callback moved out of the with block")
def _v6(repo, mod):
    fn = repo.func(E, "TestCaseExecutor._after_statement_execution")
    w = find_stmt(fn, lambda s: isinstance(s, ast.With))
    ind = " " * w.col_offset
    body = "\n".join(ind + l[4:] if i else l[4:] for i, l in enumerate(mod.segment(w).splitlines()[1:]))
    # de-indent the body by one level and drop the with header
    lines = mod.segment(w).splitlines()[1:]
    body = "\n".join((ind + l.strip() if i == 0 else " " * (len(l) - len(l.lstrip()) - 4) + l.strip()) for i, l in enumerate(lines))
    return replace_node(mod, w, body.lstrip())


@variant("C05", "extra-flag-writer", T, "C05.writers", "stop() also clears the flag")
def _v7(repo, mod):
    fn = repo.func(T, "ExecutionTracer.stop")
    return insert_before(mod, fn.body[-1], "self._thread_local_state.enabled = False")
