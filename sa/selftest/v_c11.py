import ast

from sa.engine.index import norm
from sa.selftest.harness import delete_stmt, find_node, find_stmt, insert_before, replace_node, sub_in_node, variant

TR = "pynguin.instrumentation.tracer"
FM = "pynguin.ga.fitness_metrics"


@variant("C11", "max-instead-of-min", TR, "C11.min", "min -> max in _merge_min")
def _v1(repo, mod):
    fn = repo.func(TR, "ExecutionTrace._merge_min")
    return sub_in_node(mod, fn.body[-1], "min(", "max(")


@variant("C11", "checked-lines-not-merged", TR, "C11", "checked_lines.update dropped from merge")
def _v2(repo, mod):
    fn = repo.func(TR, "ExecutionTrace.merge")
    s = find_stmt(fn, lambda s: isinstance(s, ast.Expr) and norm(s).startswith("self.checked_lines.update"))
    return delete_stmt(mod, s)


@variant("C11", "distances-swapped", TR, "C11.join", "false distances merged from the other trace's true distances")
def _v3(repo, mod):
    fn = repo.func(TR, "ExecutionTrace.merge")
    s = find_stmt(fn, lambda s: isinstance(s, ast.Expr) and norm(s) == "self._merge_min(self.false_distances, other.false_distances)")
    return replace_node(mod, s, "self._merge_min(self.false_distances, other.true_distances)")


@variant("C11", "lines-only-when-nonempty", TR, "C11.join", "line ids merged only when the other trace executed predicates")
def _v4(repo, mod):
    fn = repo.func(TR, "ExecutionTrace.merge")
    s = find_stmt(fn, lambda s: isinstance(s, ast.Expr) and norm(s).startswith("self.covered_line_ids.update"))
    ind = " " * s.col_offset
    return replace_node(mod, s, f"if other.executed_predicates:\n{ind}    {norm(s)}")


@variant("C11", "recording-side-overwrites", TR, "C11.min", "update_predicate_distances stores the latest true distance")
def _v5(repo, mod):
    fn = repo.func(TR, "ExecutionTrace.update_predicate_distances")
    s = find_stmt(fn, lambda s: isinstance(s, ast.Assign) and norm(s.targets[0]).startswith("self.true_distances["))
    return replace_node(mod, s.value, "distance_true")


@variant("C11", "fold-skips-first", FM, "C11.fold", "analyze_results skips the first result")
def _v6(repo, mod):
    fn = repo.func(FM, "analyze_results")
    lp = find_stmt(fn, lambda s: isinstance(s, ast.For))
    return replace_node(mod, lp.iter, norm(lp.iter) + "[1:]")


@variant("C11", "init-trace-aliases-import-trace", TR, "C11.fold", "init_trace shares the import trace")
def _v7(repo, mod):
    fn = repo.func(TR, "ExecutionTracer.init_trace")
    s = find_stmt(fn, lambda s: isinstance(s, ast.Assign) and "ExecutionTrace()" in norm(s))
    return replace_node(mod, s.value, "self._import_trace")


@variant("C11", "twin-reorder", TR, None, "behaviour-preserving: the two union statements swapped")
def _v8(repo, mod):
    fn = repo.func(TR, "ExecutionTrace.merge")
    a = find_stmt(fn, lambda s: isinstance(s, ast.Expr) and norm(s).startswith("self.covered_line_ids.update"))
    b = find_stmt(fn, lambda s: isinstance(s, ast.Expr) and norm(s).startswith("self.checked_lines.update"))
    from sa.selftest.harness import replace_nodes
    return replace_nodes(mod, [(a, norm(b)), (b, norm(a))])


@variant("C11", "merge-shifts-the-argument", TR, "C11.laws", "merge shifts the assertion positions of the other trace in place (seed C11-d)")
def _vl1(repo, mod):
    fn = repo.func(TR, "ExecutionTrace.merge")
    s = fn.body[-1]
    return replace_node(mod, s, "for executed_assertion in other.executed_assertions:\n            executed_assertion.trace_position += shift\n            self.executed_assertions.append(executed_assertion)")
