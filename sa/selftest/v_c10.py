import ast

from sa.engine.index import norm
from sa.selftest.harness import delete_stmt, find_node, find_stmt, insert_before, replace_node, sub_in_node, variant

FM = "pynguin.ga.fitness_metrics"
COMP = "pynguin.ga.computations"
CC = "pynguin.ga.computation_cache"
REP = "pynguin.utils.report"


@variant("C10", "drop-items-in-report", REP, "C10.member", "report tests the tuple against the dict keys")
def _v1(repo, mod):
    fn = repo.func(REP, "_get_line_to_branch_coverage")
    return sub_in_node(mod, fn, "trace.true_distances.items()", "trace.true_distances")


@variant("C10", "is-covered-other-helper", COMP, "C10.siblings", "LineTestSuiteFitnessFunction.compute_is_covered reads checked_lines via the other metric")
def _v2(repo, mod):
    fn = repo.func(COMP, "LineTestSuiteFitnessFunction.compute_is_covered")
    return sub_in_node(mod, fn, "compute_line_coverage_fitness_is_covered", "compute_checked_coverage_statement_fitness_is_covered")


@variant("C10", "exclusion-on-wrong-map", FM, "C10.siblings", "exclude_true guards the false-distance test in is_covered")
def _v3(repo, mod):
    fn = repo.func(FM, "compute_branch_distance_fitness_is_covered")
    s = find_stmt(fn, lambda s: isinstance(s, ast.If) and "exclude_true" in norm(s.test) and "true_distances" in norm(s.test))
    return sub_in_node(mod, s, "trace.true_distances", "trace.false_distances")


@variant("C10", "zero-test-becomes-le-one", FM, "C10.zero", "_predicate_fitness treats distance < 1.0 as covered")
def _v4(repo, mod):
    fn = repo.func(FM, "_predicate_fitness")
    return sub_in_node(mod, fn, "branch_distances[predicate] == 0.0", "branch_distances[predicate] < 1.0")


@variant("C10", "coverage-counts-nonzero", FM, "C10.zero", "compute_branch_coverage counts v != 0.0")
def _v5(repo, mod):
    fn = repo.func(FM, "compute_branch_coverage")
    return sub_in_node(mod, fn, "trace.true_distances.values() if v == 0.0", "trace.true_distances.values() if v != 1.0")


@variant("C10", "unguarded-division", FM, "C10.div", "compute_branch_coverage divides without the existing == 0 arm")
def _v6(repo, mod):
    fn = repo.func(FM, "compute_branch_coverage")
    s = find_stmt(fn, lambda s: isinstance(s, ast.Assign) and norm(s.targets[0]) == "coverage")
    return replace_node(mod, s, "coverage = covered / existing")


@variant("C10", "normalise-loses-inf-arm", FM, "C10.range", "normalise without the isinf guard")
def _v7(repo, mod):
    fn = repo.func(FM, "normalise")
    s = find_stmt(fn, lambda s: isinstance(s, ast.If) and "isinf" in norm(s.test))
    return delete_stmt(mod, s)


@variant("C10", "cache-write-before-assert", CC, "C10.range", "fitness cached before it is range checked")
def _v8(repo, mod):
    fn = repo.func(CC, "ComputationCache._compute_fitness")
    a = find_stmt(fn, lambda s: isinstance(s, ast.Assert))
    return delete_stmt(mod, a)


@variant("C10", "branchgoal-swapped-maps", "pynguin.ga.coveragegoals", "C10.zero", "BranchGoal.is_covered reads the opposite map")
def _v9(repo, mod):
    fn = repo.func(mod.name, "BranchGoal.is_covered")
    s = find_stmt(fn, lambda s: isinstance(s, ast.Assign) and norm(s.targets[0]) == "distances")
    return replace_node(mod, s, "distances = trace.false_distances if self._value else trace.true_distances")


@variant("C10", "twin-items-into-local", REP, None, "iterate .items() into a local first")
def _v10(repo, mod):
    fn = repo.func(REP, "_get_line_to_branchless_code_object_coverage")
    first = fn.body[0]
    return insert_before(mod, first, "_unused = dict(trace.true_distances.items())")


@variant("C10", "covered-fast-path-ignores-exclusions", "pynguin.ga.fitness_metrics", "C10.zero-iff", "early exit on unexecuted predicates before the exclusion sets are consulted (seed C10-c)")
def _vz1(repo, mod):
    fn = repo.func("pynguin.ga.fitness_metrics", "compute_branch_distance_fitness_is_covered")
    s = find_stmt(fn, lambda s: isinstance(s, ast.If) and "branch_less_code_objects" in norm(s.test))
    return insert_before(mod, s, "if len(trace.executed_predicates) < len(subject_properties.existing_predicates):\n    return False")


@variant("C10", "mio-covered-at-tiny-fitness", "pynguin.ga.algorithms.archive", "C10.mio-covered", "1.0 - normalise(f) rounds to 1.0 for a tiny non-zero fitness (the repaired defect)")
def _v40(repo, mod):
    fn = repo.func("pynguin.ga.algorithms.archive", "MIOArchive.update")
    s = find_stmt(fn, lambda s: isinstance(s, ast.If) and norm(s.test) == "fitness_value > 0.0")
    return delete_stmt(mod, s)


@variant("C10", "mio-zero-fitness-not-covering", "pynguin.ga.algorithms.archive", "C10.mio-covered", "the cap below 1.0 is applied to a fitness of zero as well")
def _v41(repo, mod):
    fn = repo.func("pynguin.ga.algorithms.archive", "MIOArchive.update")
    s = find_stmt(fn, lambda s: isinstance(s, ast.If) and norm(s.test) == "fitness_value > 0.0")
    return replace_node(mod, s.test, "fitness_value >= 0.0")


@variant("C10", "twin-mio-cap-by-covered-test", "pynguin.ga.algorithms.archive", None, "cap written with `!= 0.0`")
def _v42(repo, mod):
    fn = repo.func("pynguin.ga.algorithms.archive", "MIOArchive.update")
    s = find_stmt(fn, lambda s: isinstance(s, ast.If) and norm(s.test) == "fitness_value > 0.0")
    return replace_node(mod, s.test, "fitness_value != 0.0")
