import ast

from sa.engine.index import norm
from sa.selftest.harness import delete_stmt, find_node, find_stmt, insert_before, replace_node, replace_nodes, sub_in_node, variant

TC = "pynguin.testcase.testcase"
ATO = "pynguin.assertion.assertiontraceobserver"
EX = "pynguin.testcase.export"
LG = "pynguin.testcase.literalgen"
CROSS = "pynguin.ga.operators.crossover"


@variant("C16", "head-references-in-hash-order", TC, "C16.set-order", "crossover resolves head references in frozenset order (the repaired defect)")
def _v1(repo, mod):
    fn = repo.func(TC, "TestCase._resolve_head_references")
    lp = find_stmt(fn, lambda s: isinstance(s, ast.For))
    return replace_node(mod, lp.iter, "stmt.used_variables()")


@variant("C16", "static-fields-in-address-order", ATO, "C16.set-order", "static class fields asserted in set-of-types order (the repaired defect)")
def _v2(repo, mod):
    fn = repo.func(ATO, "RemoteAssertionTraceObserver._check_static_class_fields")
    s = find_stmt(fn, lambda s: isinstance(s, ast.Assign) and norm(s.targets[0]) == "seen_types")
    return replace_node(mod, s.value, "{type(tt.unwrap(namespace.get(name))) for name in watch_list}")


@variant("C16", "exception-imports-unsorted", EX, "C16.set-order", "exception names joined from a set")
def _v3(repo, mod):
    fn = repo.func(EX, "TestSuiteWriter.write")
    s = find_stmt(fn, lambda s: isinstance(s, ast.Assign) and norm(s.targets[0]) == "names" and "join" in norm(s.value))
    return replace_node(mod, s.value, '", ".join(set(by_module[mod]))')


@variant("C16", "separator-pool-through-set", LG, "C16.set-order", "candidate separators de-duplicated through a set before the random choice")
def _v4(repo, mod):
    fn = repo.func(LG, "_token_separator")
    r = [n for n in ast.walk(fn) if isinstance(n, ast.Assign)][0]
    return replace_node(mod, r.value, "tuple({value for value in pool if len(value) == 1})")


@variant("C16", "global-random-in-crossover", CROSS, "C16.rng", "crossover point drawn from the global random module")
def _v5(repo, mod):
    fn = repo.func(CROSS, "SinglePointRelativeCrossOver.cross_over")
    return insert_before(mod, fn.body[-1], "import random\n_jitter = random.random()").replace("import random\n", "import random\n", 1)


@variant("C16", "reseed-during-search", CROSS, "C16.seed", "an operator reseeds pynguin's generator")
def _v6(repo, mod):
    fn = repo.func(CROSS, "SinglePointRelativeCrossOver.cross_over")
    return insert_before(mod, fn.body[-1], "randomness.RNG.seed(0)")


@variant("C16", "twin-sorted-set", EX, None, "a set that is sorted before use stays silent")
def _v7(repo, mod):
    fn = repo.func(EX, "TestSuiteWriter.write")
    s = find_stmt(fn, lambda s: isinstance(s, ast.Assign) and norm(s.targets[0]) == "names" and "join" in norm(s.value))
    return insert_before(mod, s, "_unused = sorted({m for m in by_module})")


A2A = "pynguin.assertion.assertion_to_ast"
TS = "pynguin.analyses.typesystem"


@variant("C16", "asserted-set-in-hash-order", A2A, "C16.set-order", "set values rendered in iteration order (the repaired defect)")
def _v8(repo, mod):
    fn = repo.func(A2A, "_value_to_cst")
    c = find_node(fn, lambda n: isinstance(n, ast.Call) and norm(n.func) == "sorted" and norm(n.args[0]) == "value")
    return replace_node(mod, c, "list(value)")


@variant("C16", "literal-set-in-hash-order", LG, "C16.set-order", "collection literal written back in iteration order (the repaired defect)")
def _v9(repo, mod):
    fn = repo.func(LG, "_collection_to_cst")
    c = find_node(fn, lambda n: isinstance(n, ast.Call) and norm(n.func) == "sorted" and norm(n.args[0]) == "value")
    return replace_node(mod, c, "value")


@variant("C16", "superclasses-in-hash-order", TS, "C16.set-order", "ancestors of the inheritance graph put into an OrderedSet as they come (the repaired defect)")
def _v10(repo, mod):
    fn = repo.func(TS, "TypeSystem.get_superclasses")
    s = find_stmt(fn, lambda s: isinstance(s, ast.AnnAssign) and norm(s.target) == "result")
    return replace_node(mod, s.value, "OrderedSet(ancestors)")


@variant("C16", "first-subclass-picked", TS, "C16.set-order", "an arbitrary element of the descendants set is chosen")
def _v11(repo, mod):
    fn = repo.func(TS, "TypeSystem.get_subclasses")
    s = find_stmt(fn, lambda s: isinstance(s, ast.AnnAssign) and norm(s.target) == "result")
    return replace_node(mod, s.value, "OrderedSet([next(iter(descendants))])")


@variant("C16", "hash-picks-crossover-side", CROSS, "C16.hash-value", "a string hash decides which parent leads")
def _v12(repo, mod):
    fn = repo.func(CROSS, "SinglePointRelativeCrossOver.cross_over")
    return insert_before(mod, fn.body[-1], "_lead = hash(repr(parent_1)) % 2")


@variant("C16", "twin-hash-cached", TS, None, "a hash stored in a *_hash attribute stays silent")
def _v13(repo, mod):
    fn = repo.func(TS, "TypeSystem.get_superclasses")
    return insert_before(mod, fn.body[-1], "self._last_hash = hash(klass)")
