import ast

from sa.engine.index import norm
from sa.selftest.harness import delete_stmt, find_node, find_stmt, insert_before, replace_node, sub_in_node, variant

TC = "pynguin.testcase.testcase"
EXP = "pynguin.testcase.export"
A2A = "pynguin.assertion.assertion_to_ast"


@variant("C19", "clone-drops-assertions", TC, "C19.copy", "drop assertions= from TestCase.clone")
def _v1(repo, mod):
    fn = repo.func(TC, "TestCase.clone")
    call = find_node(fn, lambda n: isinstance(n, ast.Call) and norm(n.func) == "Statement")
    kw = next(k for k in call.keywords if k.arg == "assertions")
    return replace_node(mod, kw.value, "[]")


@variant("C19", "liveness-ignores-assertions", TC, "C19.live", "delete the seeding of assertion sources into the live set")
def _v2(repo, mod):
    fn = repo.func(TC, "TestCase.remove_unused_variables")
    s = find_stmt(fn, lambda s: isinstance(s, ast.Expr) and ".assertions" in norm(s) and "alive_vars.update" in norm(s))
    return delete_stmt(mod, s)


@variant("C19", "rebuild-without-assertions", TC, "C19.copy", "the original defect: bare Statement(node=...)")
def _v3(repo, mod):
    fn = repo.func(TC, "TestCase.remove_unused_variables")
    call = find_node(fn, lambda n: isinstance(n, ast.Call) and norm(n.func) == "dataclasses.replace")
    return replace_node(mod, call, "Statement(node=new_node, bound_variable=None, bound_type=None)")


@variant("C19", "export-skips-float-assertions", EXP, "C19.export", "writer skips one assertion kind")
def _v4(repo, mod):
    fn = repo.func(EXP, "TestSuiteWriter._build_test_function")
    loop = find_stmt(fn, lambda s: isinstance(s, ast.For) and norm(s.iter).endswith(".assertions"))
    return insert_before(mod, loop.body[0], "if isinstance(assertion, FloatAssertion):\n    continue")


@variant("C19", "export-path-without-assertions", EXP, "C19.export", "the xfail emission path `continue`s before the assertion loop")
def _v5(repo, mod):
    fn = repo.func(EXP, "TestSuiteWriter._build_test_function")
    s = find_stmt(fn, lambda s: isinstance(s, ast.Assign) and norm(s) == "is_failing = True")
    return replace_node(mod, s, "is_failing = True\n" + " " * s.col_offset + "continue")


@variant("C19", "renderer-misses-class", A2A, "C19.export", "assertion_to_cst loses the CollectionLengthAssertion arm")
def _v6(repo, mod):
    fn = repo.func(A2A, "assertion_to_cst")
    s = find_stmt(fn, lambda s: isinstance(s, ast.If) and "CollectionLengthAssertion" in norm(s.test))
    return delete_stmt(mod, s)


@variant("C19", "postprocess-clears-assertions", "pynguin.ga.postprocess", "C19.removers", "unused-statement visitor clears assertions")
def _v7(repo, mod):
    fn = repo.func(mod.name, "UnusedStatementsTestCaseVisitor.visit_default_test_case")
    s = find_stmt(fn, lambda s: isinstance(s, ast.Expr) and "remove_unused_variables" in norm(s))
    return insert_before(mod, s, "for statement in test_case.statements():\n    statement.assertions.clear()")


@variant("C19", "twin-keyword-order", TC, None, "reorder keywords of the Statement call in clone")
def _v8(repo, mod):
    fn = repo.func(TC, "TestCase.clone")
    call = find_node(fn, lambda n: isinstance(n, ast.Call) and norm(n.func) == "Statement")
    kws = list(reversed(call.keywords))
    return replace_node(mod, call, "Statement(" + ", ".join(f"{k.arg}={norm(k.value)}" for k in kws) + ")")
