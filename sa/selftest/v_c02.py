import ast

from sa.engine.index import norm
from sa.selftest.harness import delete_stmt, find_node, find_stmt, insert_before, replace_node, replace_nodes, sub_in_node, variant

TR = "pynguin.instrumentation.tracer"
FM = "pynguin.ga.fitness_metrics"
P310 = "pynguin.instrumentation.version.python3_10"
P311 = "pynguin.instrumentation.version.python3_11"


@variant("C02", "probe-reports-line-number", P310, "C02.id-flow", "probe passes the line number instead of the registered id")
def _v1(repo, mod):
    fn = repo.func(P310, "LineCoverageInstrumentation.visit_line")
    c = find_node(fn, lambda n: isinstance(n, ast.keyword) and norm(n.value) == "line_id")
    return replace_node(mod, c.value, "instr.lineno")


@variant("C02", "line-registered-for-first-instruction", P310, "C02.id-flow", "line registered with the line of the block's first instruction")
def _v2(repo, mod):
    fn = repo.func(P310, "LineCoverageInstrumentation.visit_line")
    c = find_node(fn, lambda n: isinstance(n, ast.keyword) and n.arg == "line_number")
    return replace_node(mod, c.value, "node.basic_block[0].lineno")


@variant("C02", "lineless-instructions-probed", P310, "C02.which-line", "instructions without a line are probed (line None)")
def _v3(repo, mod):
    fn = repo.func(P310, "LineCoverageInstrumentation.should_instrument_line")
    r = find_node(fn, lambda n: isinstance(n, ast.Return))
    return replace_node(mod, r.value, "instr.lineno != lineno")


@variant("C02", "resume-probed", P311, "C02.which-line", "RESUME is probed: the def line counts as executed by every call")
def _v4(repo, mod):
    fn = repo.func(P311, "LineCoverageInstrumentation.should_instrument_line")
    r = find_node(fn, lambda n: isinstance(n, ast.Return))
    return replace_node(mod, r.value, "super().should_instrument_line(instr, lineno)")


@variant("C02", "loop-left-at-lineless-instruction", P310, "C02.every-instr", "break instead of continue (seed C02-a)")
def _v5(repo, mod):
    fn = repo.func(P310, "LineCoverageInstrumentation.visit_node")
    s = find_stmt(fn, lambda s: isinstance(s, ast.If) and norm(s.test).startswith("self.should_instrument_line"))
    return insert_before(mod, s, "if not isinstance(instr.lineno, int):\n    break")


@variant("C02", "probe-after-instruction", P310, "C02.id-flow", "probe spliced after the first instruction of the line")
def _v6(repo, mod):
    fn = repo.func(P310, "LineCoverageInstrumentation.visit_line")
    c = find_node(fn, lambda n: isinstance(n, ast.Call) and norm(n.func) == "before")
    return replace_node(mod, c.func, "after")


@variant("C02", "line-visits-ignore-disable", TR, "C02.enabled", "track_line_visit without the enabled guard (seed C02-b)")
def _v7(repo, mod):
    fn = repo.func(TR, "ExecutionTracer.track_line_visit")
    return replace_node(mod, fn.decorator_list[0], "staticmethod(lambda f: f).__func__")


@variant("C02", "early-return-without-disabled-test", TR, "C02.enabled", "_early_return only checks the thread")
def _v8(repo, mod):
    fn = repo.func(TR, "_early_return")
    i = find_node(fn, lambda n: isinstance(n, ast.If) and norm(n.test) == "self.is_disabled()")
    return replace_node(mod, i.test, "False")


@variant("C02", "forwarder-swaps-values", TR, "C02.api", "InstrumentationExecutionTracer forwards (value2, value1)")
def _v9(repo, mod):
    fn = repo.func(TR, "InstrumentationExecutionTracer.executed_compare_predicate")
    c = find_node(fn, lambda n: isinstance(n, ast.Call) and norm(n.func) == "self._tracer.executed_compare_predicate")
    return replace_nodes(mod, [(c.args[0], "value2"), (c.args[1], "value1")])


@variant("C02", "probe-passes-two-arguments", P310, "C02.api", "track_line_visit called with two arguments")
def _v10(repo, mod):
    fn = repo.func(P310, "LineCoverageInstrumentation.visit_line")
    t = find_node(fn, lambda n: isinstance(n, ast.Tuple) and len(n.elts) == 1 and norm(n.elts[0]).startswith("InstrumentationConstantLoad"))
    return replace_node(mod, t, "(InstrumentationConstantLoad(value=line_id), InstrumentationConstantLoad(value=code_object_id))")


@variant("C02", "coverage-over-checked-lines", FM, "C02.metric", "line coverage computed from checked lines")
def _v11(repo, mod):
    fn = repo.func(FM, "compute_line_coverage")
    c = find_node(fn, lambda n: isinstance(n, ast.Attribute) and norm(n) == "trace.covered_line_ids")
    return replace_node(mod, c, "trace.checked_lines")


@variant("C02", "code-object-entry-marks-line", TR, "C02.metric", "executed_code_object also marks a line as covered")
def _v12(repo, mod):
    fn = repo.func(TR, "ExecutionTracer.executed_code_object")
    return insert_before(mod, fn.body[0], "self._thread_local_state.trace.covered_line_ids.add(code_object_id)")


@variant("C02", "twin-lineless-continue", P310, None, "behaviour-preserving: explicit continue for line-less instructions")
def _v13(repo, mod):
    fn = repo.func(P310, "LineCoverageInstrumentation.visit_node")
    s = find_stmt(fn, lambda s: isinstance(s, ast.If) and norm(s.test).startswith("self.should_instrument_line"))
    return insert_before(mod, s, "if not isinstance(instr.lineno, int):\n    continue")


@variant("C02", "twin-inline-enabled-guard", TR, None, "behaviour-preserving: the guard of _early_return written inline")
def _v14(repo, mod):
    fn = repo.func(TR, "ExecutionTracer.track_line_visit")
    body = "if self.is_disabled():\n            return\n        self.check()\n        " + mod.segment(fn.body[0])
    return replace_nodes(mod, [(fn.decorator_list[0], "staticmethod(lambda f: f).__func__"), (fn.body[0], body)])


@variant("C02", "proxy-deduplicates-line-visits", TR, "C02.api", "the instrumentation proxy drops repeated line ids (seed C02-d)")
def _v15(repo, mod):
    fn = repo.func(TR, "InstrumentationExecutionTracer.track_line_visit")
    return insert_before(mod, fn.body[-1], "if line_id == getattr(self, '_last_line_id', -1):\n    return\nself._last_line_id = line_id")


@variant("C02", "execution-trace-is-the-import-trace", TR, "C02.isolation", "init_trace hands out the import trace itself: lines of one execution reach the next")
def _v50(repo, mod):
    fn = repo.func(TR, "ExecutionTracer.init_trace")
    s = find_stmt(fn, lambda s: isinstance(s, ast.Assign) and norm(s) == "new_trace = ExecutionTrace()")
    return replace_node(mod, s, "new_trace = self._import_trace")


@variant("C02", "twin-init-trace-merges-into-fresh-local", TR, None, "same behaviour, local renamed and merge chained differently")
def _v51(repo, mod):
    fn = repo.func(TR, "ExecutionTracer.init_trace")
    s = find_stmt(fn, lambda s: isinstance(s, ast.Assign) and norm(s) == "new_trace = ExecutionTrace()")
    return replace_node(mod, s, "new_trace = ExecutionTrace()\n        _unused = len(new_trace.covered_line_ids)")
