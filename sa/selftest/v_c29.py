import ast

from sa.engine.index import norm
from sa.selftest.harness import delete_stmt, find_node, find_stmt, insert_before, replace_node, replace_nodes, sub_in_node, variant

FS = "pynguin.utils.fs_isolation"
C = "FilesystemIsolation"
TM = f"{C}._create_tracked_method.<locals>.tracked_method"


@variant("C29", "preexisting-target-recorded", FS, "C29.preexist", "makedirs(exist_ok=True) on an existing directory is recorded again (the repaired defect)")
def _v1(repo, mod):
    fn = repo.func(FS, TM)
    s = find_stmt(fn, lambda s: isinstance(s, ast.If) and norm(s.test) == "self._is_foreign(rec)")
    return delete_stmt(mod, s)


@variant("C29", "append-open-on-foreign-file", FS, "C29", "write-mode open of a pre-existing file no longer refused")
def _v2(repo, mod):
    fn = repo.func(FS, f"{C}._create_open_tracked.<locals>.tracked_open")
    s = find_stmt(fn, lambda s: isinstance(s, ast.If) and "self._is_foreign(file_arg)" in norm(s.test))
    return delete_stmt(mod, s)


@variant("C29", "os-open-foreign-check-after-call", FS, "C29.preexist", "foreign test moved behind the wrapped os.open")
def _v2b(repo, mod):
    fn = repo.func(FS, f"{C}._os_open_tracked.<locals>.tracked_os_open")
    s = find_stmt(fn, lambda s: isinstance(s, ast.If) and "self._is_foreign(path)" in norm(s.test))
    call = find_stmt(fn, lambda s: isinstance(s, ast.Assign) and "original_func" in norm(s.value))
    return replace_nodes(mod, [(s, norm(call)), (call, mod.segment(s))])


@variant("C29", "cleanup-before-unpatch", FS, "C29.exit", "exit stack closed after the cleanup loop")
def _v3(repo, mod):
    fn = repo.func(FS, f"{C}.__exit__")
    close = find_stmt(fn, lambda s: isinstance(s, ast.Expr) and norm(s) == "self._exit_stack.close()")
    clear = find_stmt(fn, lambda s: isinstance(s, ast.Expr) and norm(s) == "self._created.clear()")
    return replace_nodes(mod, [(close, "pass"), (clear, "self._created.clear()\n        self._exit_stack.close()")])


@variant("C29", "rmtree-untracked-target", FS, "C29.table", "shutil.rmtree no longer requires a created target")
def _v4(repo, mod):
    fn = repo.func(FS, f"{C}._initialize_patches")
    tab = find_node(fn, lambda n: isinstance(n, ast.Dict) and any("rmtree" in norm(k) for k in n.keys))
    i = next(i for i, k in enumerate(tab.keys) if "rmtree" in norm(k))
    return replace_node(mod, tab.values[i], '{"record_arg_idx": 0}')


@variant("C29", "patch-not-on-exit-stack", FS, "C29.patches", "tempfile.tempdir patched without registration for undoing")
def _v5(repo, mod):
    fn = repo.func(FS, f"{C}.__enter__")
    s = find_stmt(fn, lambda s: isinstance(s, ast.Expr) and "tempfile.tempdir" in norm(s))
    return replace_node(mod, s, 'patch("tempfile.tempdir", tmpdir).start()')


@variant("C29", "cwd-exempt-from-foreign", FS, "C29.foreign", "everything below the working directory counts as isolated")
def _v6(repo, mod):
    fn = repo.func(FS, f"{C}._is_foreign")
    s = find_stmt(fn, lambda s: isinstance(s, ast.Assign) and norm(s.targets[0]) == "tmp_root")
    return replace_node(mod, s.value, "self._abspath(os.getcwd())")


@variant("C29", "destructive-without-created-test", FS, "C29.destructive", "remove/rename of paths that were not created inside the isolation")
def _v7(repo, mod):
    fn = repo.func(FS, TM)
    s = find_stmt(fn, lambda s: isinstance(s, ast.If) and norm(s.test) == "abs_forget not in self._created")
    return delete_stmt(mod, s)


@variant("C29", "cleanup-of-tmp-parent", FS, "C29.exit", "cleanup also removes the parent directories of created paths")
def _v8(repo, mod):
    fn = repo.func(FS, f"{C}.__exit__")
    lp = find_stmt(fn, lambda s: isinstance(s, ast.For))
    u = find_node(lp, lambda n: isinstance(n, ast.Call) and norm(n.func) == "shutil.rmtree")
    return replace_node(mod, u.args[0], "os.path.dirname(path)")


@variant("C29", "twin-record-in-finally", FS, None, "recording moved into a finally after the foreign test: harmless, must stay silent")
def _v9(repo, mod):
    fn = repo.func(FS, TM)
    call = find_stmt(fn, lambda s: isinstance(s, ast.Assign) and "original_func" in norm(s.value))
    tr = find_stmt(fn, lambda s: isinstance(s, ast.Try) and "_record_created" in norm(s))
    ind = " " * call.col_offset
    body = "\n".join(ind + "    " + l for l in ["    " + x if i else x for i, x in enumerate(mod.segment(tr).splitlines())])
    new = f"try:\n{ind}    {norm(call)}\n{ind}finally:\n{ind}    try:\n{ind}        self._record_created(rec, dst)\n{ind}    except Exception:\n{ind}        pass"
    return replace_nodes(mod, [(call, new), (tr, "pass")])


@variant("C29", "exists-follows-symlinks", FS, "C29.foreign", "lexists replaced by Path.exists")
def _v10(repo, mod):
    fn = repo.func(FS, f"{C}._is_foreign")
    c = find_node(fn, lambda n: isinstance(n, ast.Call) and norm(n.func) == "os.path.lexists")
    return replace_node(mod, c, "Path(path).exists()")


@variant("C29", "forget-by-bare-prefix", FS, "C29.bookkeeping", "forgetting a path also forgets siblings whose name extends it")
def _v11(repo, mod):
    fn = repo.func(FS, f"{C}._forget")
    c = find_node(fn, lambda n: isinstance(n, ast.Call) and norm(n.func) == "self._created.discard")
    return replace_node(mod, c, "self._created.difference_update([e for e in self._created if e.startswith(self._abspath(p))])")


@variant("C29", "twin-forget-below-directory", FS, None, "entries strictly below a forgotten directory dropped with a separator-terminated prefix: harmless")
def _v12(repo, mod):
    fn = repo.func(FS, f"{C}._forget")
    c = find_node(fn, lambda n: isinstance(n, ast.Call) and norm(n.func) == "self._created.discard")
    st = c
    from sa.engine.index import parent
    while not isinstance(st, ast.stmt):
        st = parent(st)
    ind = " " * st.col_offset
    return replace_node(mod, st, f"{norm(st)}\n{ind}self._created.difference_update([e for e in self._created if e.startswith(self._abspath(p) + os.sep)])")


@variant("C29", "keyword-arguments-by-common-names", FS, "C29.args", "keywords resolved through the list of common names only (the repaired defect)")
def _v30(repo, mod):
    fn = repo.func(FS, "FilesystemIsolation._get_arg")
    s = find_stmt(fn, lambda s: isinstance(s, ast.If) and "len(names)" in norm(s.test))
    return delete_stmt(mod, s)


@variant("C29", "destination-index-off-by-one", FS, "C29.args", "shutil.move tests and records its source as the destination")
def _v31(repo, mod):
    fn = repo.func(FS, "FilesystemIsolation._initialize_patches")
    d = find_node(fn, lambda n: isinstance(n, ast.Dict) and len(n.keys) == 2 and all(isinstance(k, ast.Constant) for k in n.keys) and {k.value for k in n.keys} == {"record_dst_idx", "forget_arg_idx"})
    return replace_node(mod, d, '{"forget_arg_idx": 0, "record_dst_idx": 0}')


@variant("C29", "relative-paths-through-the-text-cache", FS, "C29.cwd", "relative names normalised through the cache without the working directory (the repaired defect)")
def _v32(repo, mod):
    fn = repo.func(FS, "FilesystemIsolation._abspath")
    s = find_stmt(fn, lambda s: isinstance(s, ast.If) and "isabs" in norm(s.test))
    return delete_stmt(mod, s)


@variant("C29", "working-directory-cached-too", FS, "C29.cwd", "the anchoring itself is memoised")
def _v33(repo, mod):
    fn = repo.func(FS, "FilesystemIsolation._abspath")
    s = find_stmt(fn, lambda s: isinstance(s, ast.If) and "isabs" in norm(s.test))
    return replace_node(mod, s, "text = _anchor(text)").replace("class FilesystemIsolation(", "@lru_cache(maxsize=64)\ndef _anchor(text):\n    return text if os.path.isabs(text) else os.path.join(os.getcwd(), text)\n\n\nclass FilesystemIsolation(", 1)


@variant("C29", "twin-arguments-bound-by-signature", FS, None, "binding through inspect.signature().bind_partial stays silent")
def _v34(repo, mod):
    fn = repo.func(FS, "FilesystemIsolation._get_arg")
    s = find_stmt(fn, lambda s: isinstance(s, ast.If) and "len(names)" in norm(s.test))
    return replace_node(mod, s, "if index < len(names) and names[index] in kwargs:\n            return kwargs[names[index]]\n        if index < len(names):\n            return None")


@variant("C29", "write-mode-by-first-and-last-character", FS, "C29.modes", "`r+b` counts as a read-only mode")
def _v40(repo, mod):
    fn = repo.func(FS, "FilesystemIsolation._is_write_mode")
    r = find_stmt(fn, lambda s: isinstance(s, ast.Return))
    return replace_node(mod, r.value, 'mode.startswith(("w", "a", "x")) or mode.endswith("+")')


@variant("C29", "twin-write-mode-by-set-intersection", FS, None, "the same classification through a set intersection stays silent")
def _v41(repo, mod):
    fn = repo.func(FS, "FilesystemIsolation._is_write_mode")
    r = find_stmt(fn, lambda s: isinstance(s, ast.Return))
    return replace_node(mod, r.value, 'len([ch for ch in mode if ch in "wax+"]) > 0')


@variant("C29", "io-open-deduplicated-away", "pynguin.utils.fs_isolation", "C29.open-bindings", "io.open skipped because it is the same function object as builtins.open (seed C29-g)")
def _v50(repo, mod):
    from sa.selftest.harness import text_edit
    return text_edit(mod, "            original = getattr(module, method)\n            tracked = self._create_open_tracked(original)", "            original = getattr(module, method)\n            if method == 'open' and module is io:\n                continue\n            tracked = self._create_open_tracked(original)")
