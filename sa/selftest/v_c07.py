import ast

from sa.engine.index import norm
from sa.selftest.harness import delete_stmt, find_node, find_stmt, insert_before, replace_node, replace_nodes, sub_in_node, variant

TRF = "pynguin.instrumentation.transformer"
CF = "pynguin.instrumentation.controlflow"
DYN = "pynguin.ga.algorithms.dynamosaalgorithm"
P310 = "pynguin.instrumentation.version.python3_10"
P311 = "pynguin.instrumentation.version.python3_11"


@variant("C07", "relink-only-orphans", TRF, "C07.relink", "successors re-attached only if they lost all incoming edges (seed C07-a)")
def _v1(repo, mod):
    fn = repo.func(TRF, "InstrumentationTransformer._create_covered_cdg")
    c = find_node(fn, lambda n: isinstance(n, ast.Expr) and norm(n.value).startswith("cdg.graph.add_edge"))
    return replace_node(mod, c, "if cdg.graph.in_degree(succ) == 0:\n                            cdg.graph.add_edge(pred, succ)")


@variant("C07", "relink-keeps-first-successor-only", TRF, "C07.relink", "only one successor is re-attached")
def _v2(repo, mod):
    fn = repo.func(TRF, "InstrumentationTransformer._create_covered_cdg")
    c = find_node(fn, lambda n: isinstance(n, ast.Expr) and norm(n.value).startswith("cdg.graph.add_edge"))
    return replace_node(mod, c, "cdg.graph.add_edge(pred, succ)\n                        break")


@variant("C07", "relinked-edges-labelled", TRF, "C07.relink", "re-linked edges get a branch value")
def _v3(repo, mod):
    fn = repo.func(TRF, "InstrumentationTransformer._create_covered_cdg")
    c = find_node(fn, lambda n: isinstance(n, ast.Call) and norm(n.func) == "cdg.graph.add_edge")
    return replace_node(mod, c, "cdg.graph.add_edge(pred, succ, branch_value=True)")


@variant("C07", "visit-node-ignores-the-jump-line", P311, "C07.agree", "visit_node no longer requires the line of the jump to be covered, the covered CDG still does")
def _v4(repo, mod):
    fn = repo.func(P311, "BranchCoverageInstrumentation.visit_node")
    c = find_node(fn, lambda n: isinstance(n, ast.Call) and norm(n) == "ast_info.should_cover_line(maybe_jump.lineno)")
    return replace_node(mod, c, "True")


@variant("C07", "cdg-keeps-blocks-with-excluded-condition", TRF, "C07.agree", "covered CDG ignores excluded conditional statements")
def _v5(repo, mod):
    fn = repo.func(TRF, "InstrumentationTransformer._create_covered_cdg")
    c = find_node(fn, lambda n: isinstance(n, ast.Call) and norm(n.func) == "ast_info.should_cover_conditional_statement")
    return replace_node(mod, c, "True")


@variant("C07", "visit-node-310-ignores-excluded-conditions", P310, "C07.agree", "3.10 visit_node no longer asks whether the conditional statement is excluded")
def _v6(repo, mod):
    fn = repo.func(P310, "BranchCoverageInstrumentation.visit_node")
    c = find_node(fn, lambda n: isinstance(n, ast.Call) and norm(n) == "ast_info.should_cover_conditional_statement(maybe_jump.lineno)")
    return replace_node(mod, c, "True")


@variant("C07", "deps-stop-at-unlabelled-edges", CF, "C07.deps", "dependencies are not looked up through unlabelled edges")
def _v7(repo, mod):
    fn = repo.func(CF, "ControlDependenceGraph._retrieve_control_dependencies")
    c = find_node(fn, lambda n: isinstance(n, ast.Expr) and norm(n.value).startswith("result.update"))
    return replace_node(mod, c, "pass")


@variant("C07", "root-through-labelled-edges", CF, "C07.deps", "root dependence follows labelled edges too")
def _v8(repo, mod):
    fn = repo.func(CF, "ControlDependenceGraph._is_control_dependent_on_root")
    i = find_node(fn, lambda n: isinstance(n, ast.If) and "EDGE_DATA_BRANCH_VALUE" in norm(n.test))
    return replace_node(mod, i.test, "False")


@variant("C07", "roots-only-branchless", DYN, "C07.graph", "root-dependent predicates are not added to the roots")
def _v9(repo, mod):
    fn = repo.func(DYN, "_BranchFitnessGraph._build_graph")
    i = find_node(fn, lambda n: isinstance(n, ast.If) and "is_control_dependent_on_root" in norm(n.test))
    return replace_node(mod, i.test, "False")


@variant("C07", "dependency-value-inverted", DYN, "C07.update", "children hang below the other outcome; a goal whose parent outcome... ")
def _v10(repo, mod):
    fn = repo.func(DYN, "_GoalsManager.update")
    i = find_node(fn, lambda n: isinstance(n, ast.If) and norm(n.test) == "child not in self._current_goals and child not in covered")
    return replace_node(mod, i.test, "child not in self._current_goals and child in covered")


@variant("C07", "uncovered-goals-dropped", DYN, "C07.update", "uncovered current goals are not kept")
def _v11(repo, mod):
    fn = repo.func(DYN, "_GoalsManager.update")
    c = find_node(fn, lambda n: isinstance(n, ast.Expr) and norm(n.value) == "new_goals.add(old_goal)")
    return replace_node(mod, c, "pass")


@variant("C07", "twin-relink-loop-order", TRF, None, "behaviour-preserving: loops over successors and predecessors swapped")
def _v12(repo, mod):
    fn = repo.func(TRF, "InstrumentationTransformer._create_covered_cdg")
    outer = find_node(fn, lambda n: isinstance(n, ast.For) and norm(n.iter) == "predecessors")
    return replace_node(mod, outer, "for succ in successors:\n                    for pred in predecessors:\n                        cdg.graph.add_edge(pred, succ)")


@variant("C07", "twin-update-local", DYN, None, "behaviour-preserving: unused local in update")
def _v13(repo, mod):
    fn = repo.func(DYN, "_GoalsManager.update")
    return insert_before(mod, fn.body[-1], "_n = len(self._current_goals)")


@variant("C07", "predicate-lookup-across-code-objects", DYN, "C07.node-key", "node -> predicate map built over all code objects (seed C07-c)")
def _v14(repo, mod):
    fn = repo.func(DYN, "_BranchFitnessGraph._build_graph")
    dc = find_node(fn, lambda n: isinstance(n, ast.DictComp))
    return replace_node(mod, dc.generators[0].ifs[0], "True")
