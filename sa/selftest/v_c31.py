import ast

from sa.engine.index import norm
from sa.selftest.harness import delete_stmt, find_node, find_stmt, insert_before, replace_node, replace_nodes, sub_in_node, variant

SUB = "pynguin.testcase.subprocess_executor"
ASS = "pynguin.assertion.assertion"
TR = "pynguin.instrumentation.tracer"
C = "SubprocessTestCaseExecutor"


@variant("C31", "child-timeouts-swapped", SUB, "C31.args", "inner executor gets (per-statement, maximum)")
def _v1(repo, mod):
    fn = repo.func(SUB, f"{C}._execute_test_cases_in_subprocess")
    c = find_node(fn, lambda n: isinstance(n, ast.Call) and norm(n.func) == "TestCaseExecutor")
    return replace_nodes(mod, [(c.args[2], norm(c.args[3])), (c.args[3], norm(c.args[2]))])


@variant("C31", "process-args-swapped", SUB, "C31.args", "module provider and subject properties swapped in the process args")
def _v2(repo, mod):
    fn = repo.func(SUB, f"{C}._setup_subprocess_execution")
    t = find_node(fn, lambda n: isinstance(n, ast.Tuple) and any("PatchRandomOnUnpickle" in norm(e) for e in n.elts))
    return replace_nodes(mod, [(t.elts[1], norm(t.elts[2])), (t.elts[2], norm(t.elts[1]))])


@variant("C31", "rng-state-not-installed", SUB, "C31.pipe", "parent ignores the RNG state of the child")
def _v3(repo, mod):
    fn = repo.func(SUB, f"{C}._process_subprocess_results")
    return delete_stmt(mod, find_stmt(fn, lambda s: isinstance(s, ast.Expr) and norm(s) == "randomness.RNG.setstate(random_state)"))


@variant("C31", "unpack-order-changed", SUB, "C31.pipe", "parent unpacks results and bindings in the other order")
def _v4(repo, mod):
    fn = repo.func(SUB, f"{C}._process_subprocess_results")
    u = find_stmt(fn, lambda s: isinstance(s, ast.Assign) and isinstance(s.targets[0], ast.Tuple) and norm(s.value) == "return_value")
    e = u.targets[0].elts
    return replace_nodes(mod, [(e[2], norm(e[3])), (e[3], norm(e[2]))])


@variant("C31", "state-key-renamed-in-setter", TR, "C31.state", "setter reads another key than the getter writes")
def _v5(repo, mod):
    fn = repo.func(TR, "ExecutionTracer.state@setter")
    s = find_stmt(fn, lambda s: isinstance(s, ast.Assign) and norm(s.targets[0]) == "self._import_trace")
    return replace_node(mod, s.value, 'state["imported_trace"]')


@variant("C31", "proxy-knowledge-not-sanitised", SUB, "C31.fix", "proxy knowledge no longer checked for picklability")
def _v6(repo, mod):
    fn = repo.func(SUB, f"{C}._fix_result_for_pickle")
    s = find_stmt(fn, lambda s: isinstance(s, ast.Expr) and "result.proxy_knowledge" in norm(s))
    return delete_stmt(mod, s)


@variant("C31", "clone-drops-attribute-path", ASS, "C31.clone", "clone looks up the root variable and returns it without the attribute path")
def _v7(repo, mod):
    fn = repo.methods(repo.cls(ASS, "FloatAssertion"))["clone"]
    c = find_node(fn, lambda n: isinstance(n, ast.Call) and norm(n.func) == "memo.get")
    return replace_node(mod, c, "memo.get(self._source.partition('.')[0], self._source)")


@variant("C31", "clone-loses-payload", ASS, "C31.clone", "CollectionLengthAssertion.clone resets the length")
def _v8(repo, mod):
    fn = repo.methods(repo.cls(ASS, "CollectionLengthAssertion"))["clone"]
    r = fn.body[-1]
    return replace_node(mod, r.value.args[1], "0")


@variant("C31", "twin-unused-local", SUB, None, "behaviour-preserving edit")
def _v9(repo, mod):
    fn = repo.func(SUB, f"{C}._fix_result_for_pickle")
    return insert_before(mod, fn.body[-1], "_unused = result")


@variant("C31", "instrument-flag-not-handed-over", SUB, "C31.transfer", "set_instrument() stays in the parent (the repaired defect)")
def _v30(repo, mod):
    fn = repo.func(SUB, "SubprocessTestCaseExecutor._setup_subprocess_execution")
    t = find_node(fn, lambda n: isinstance(n, ast.Tuple) and any(norm(e) == "self._instrument" for e in n.elts))
    return replace_node(mod, next(e for e in t.elts if norm(e) == "self._instrument"), "None")


@variant("C31", "instrument-flag-received-not-applied", SUB, "C31.transfer", "the child receives the flag and drops it")
def _v31(repo, mod):
    fn = repo.func(SUB, "SubprocessTestCaseExecutor._execute_test_cases_in_subprocess")
    s = find_stmt(fn, lambda s: isinstance(s, ast.If) and "instrument" in norm(s.test))
    return delete_stmt(mod, s)


@variant("C31", "relink-only-binding-positions", SUB, "C31.relink", "assertions re-added only at positions that bind a variable")
def _v40(repo, mod):
    fn = repo.func(SUB, "SubprocessTestCaseExecutor._fix_assertion_trace")
    lp = find_stmt(fn, lambda s: isinstance(s, ast.For) and "all_assertions.items()" in norm(s.iter))
    return replace_node(mod, lp, "for position in sorted(new_reference_bindings):\n            for assertion in all_assertions.get(position, ()):\n                assertion_trace.add_entry(position, assertion.clone(memo))")


@variant("C31", "relink-without-renaming", SUB, "C31.relink", "assertions re-added with the child's variable names")
def _v41(repo, mod):
    fn = repo.func(SUB, "SubprocessTestCaseExecutor._fix_assertion_trace")
    c = find_node(fn, lambda n: isinstance(n, ast.Call) and norm(n.func) == "assertion.clone")
    return replace_node(mod, c, "assertion")


@variant("C31", "fallback-executor-without-module-provider", "pynguin.testcase.subprocess_executor", "C31.aux", "the per-test fallback runs against a fresh ModuleProvider (seed C31-e)")
def _v50(repo, mod):
    from sa.selftest.harness import text_edit
    return text_edit(mod, "        executor = SubprocessTestCaseExecutor(\n            self._subject_properties,\n            self._module_provider,\n            self._maximum_test_execution_timeout,\n            self._test_execution_time_per_statement,\n        )", "        executor = SubprocessTestCaseExecutor(\n            self._subject_properties,\n            maximum_test_execution_timeout=self._maximum_test_execution_timeout,\n            test_execution_time_per_statement=self._test_execution_time_per_statement,\n        )")
