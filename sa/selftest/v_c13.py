import ast

from sa.engine.index import norm
from sa.selftest.harness import delete_stmt, find_node, find_stmt, insert_before, replace_node, sub_in_node, variant

AR = "pynguin.ga.algorithms.archive"
DY = "pynguin.ga.algorithms.dynamosaalgorithm"


@variant("C13", "le-instead-of-lt", AR, "C13.better", "< -> <= in CoverageArchive._is_better_than_current")
def _v1(repo, mod):
    fn = repo.func(AR, "CoverageArchive._is_better_than_current")
    return sub_in_node(mod, fn.body[-1], "<", "<=")


@variant("C13", "drop-covers-guard", AR, "C13.guard", "archive a solution without testing that it covers the goal")
def _v2(repo, mod):
    fn = repo.func(AR, "CoverageArchive.update")
    i = find_node(fn, lambda n: isinstance(n, ast.If) and isinstance(n.test, ast.BoolOp) and "_is_better_than_current" in norm(n.test))
    rest = [v for v in i.test.values if "_is_better_than_current" in norm(v)]
    return replace_node(mod, i.test, norm(rest[0]))


@variant("C13", "shrink-covered-population", AR, "C13.mio-cap", "shrink_population loses its is_covered early return")
def _v3(repo, mod):
    fn = repo.func(AR, "MIOPopulation.shrink_population")
    s = find_stmt(fn, lambda s: isinstance(s, ast.If) and "is_covered" in norm(s.test))
    return delete_stmt(mod, s)


@variant("C13", "external-covered-writer", DY, "C13.writers", "another module deletes from the covered map")
def _v4(repo, mod):
    fn = repo.func(DY, "_GoalsManager.update")
    return insert_before(mod, fn.body[-1], "self._archive._covered.clear()")


@variant("C13", "drop-uncovered-goal", DY, "C13.goals", "uncovered current goals are not carried over")
def _v5(repo, mod):
    fn = repo.func(DY, "_GoalsManager.update")
    lp = find_node(fn, lambda n: isinstance(n, ast.For) and norm(n.iter) == "self._current_goals")
    top_if = next(s for s in lp.body if isinstance(s, ast.If))
    return delete_stmt(mod, top_if.orelse[0])


@variant("C13", "twin-rename-local", AR, None, "behaviour-preserving: extra local in update")
def _v6(repo, mod):
    fn = repo.func(AR, "CoverageArchive.update")
    return insert_before(mod, fn.body[-1], "_unused = 0")


@variant("C13", "local-search-on-archived-objects", DY, "C13.aliasing", "local search gets the archive's own chromosomes")
def _v20(repo, mod):
    fn = repo.func(DY, "DynaMOSAAlgorithm.local_search")
    c = find_node(fn, lambda n: isinstance(n, ast.Call) and norm(n) == "chromosome.clone()")
    return replace_node(mod, c, "chromosome")


@variant("C13", "twin-clone-through-local", DY, None, "clone bound to a local first")
def _v21(repo, mod):
    fn = repo.func(DY, "DynaMOSAAlgorithm.local_search")
    s = find_stmt(fn, lambda s: isinstance(s, ast.Expr) and norm(s) == "test_cases.add(chromosome.clone())")
    ind = " " * s.col_offset
    return replace_node(mod, s, f"copy_ = chromosome.clone()\n{ind}test_cases.add(copy_)")


@variant("C13", "solutions-iterated-once-per-objective", AR, "C13.iterable", "a one-shot iterable only reaches the first objective (the repaired defect)")
def _v30(repo, mod):
    fn = repo.func(AR, "CoverageArchive.update")
    s = find_stmt(fn, lambda s: isinstance(s, ast.Assign) and norm(s) == "solutions = tuple(solutions)")
    return delete_stmt(mod, s)


@variant("C13", "twin-solutions-materialised-as-list", AR, None, "list instead of tuple")
def _v31(repo, mod):
    fn = repo.func(AR, "CoverageArchive.update")
    s = find_stmt(fn, lambda s: isinstance(s, ast.Assign) and norm(s) == "solutions = tuple(solutions)")
    return replace_node(mod, s, "solutions = list(solutions)")
