import ast

from sa.engine.index import norm
from sa.selftest.harness import delete_stmt, find_node, find_stmt, insert_before, replace_node, replace_nodes, sub_in_node, variant

TC = "pynguin.testcase.testcase"
CROSS = "pynguin.ga.operators.crossover"
MUT = "pynguin.ga.operators.mutation"


@variant("C15", "registry-not-rebuilt", TC, "C15.mutators", "replace_statement leaves the type registry stale")
def _v1(repo, mod):
    fn = repo.func(TC, "TestCase.replace_statement")
    return delete_stmt(mod, find_stmt(fn, lambda s: isinstance(s, ast.Expr) and "_rebuild_registry" in norm(s)))


@variant("C15", "code-cache-kept", TC, "C15.mutators", "insert_statement keeps the cached source")
def _v2(repo, mod):
    fn = repo.func(TC, "TestCase.insert_statement")
    return delete_stmt(mod, find_stmt(fn, lambda s: isinstance(s, ast.Assign) and norm(s) == "self._code_cache = None"))


@variant("C15", "external-statement-write", CROSS, "C15.writers", "crossover truncates the statement list directly")
def _v3(repo, mod):
    fn = repo.func(CROSS, "splice_test_case_chromosomes")
    s = find_stmt(fn, lambda s: isinstance(s, ast.Expr) and "append_test_case_from" in norm(s))
    return insert_before(mod, s, "offspring_test_case._statements = offspring_test_case._statements[:position1]")


@variant("C15", "read-set-copied-across-rename", TC, "C15.read-cache", "append_test_case_from copies the donor's read set onto the renamed node")
def _v4(repo, mod):
    fn = repo.func(TC, "TestCase.append_test_case_from")
    s = find_stmt(fn, lambda s: isinstance(s, ast.Expr) and norm(s).startswith("self.add_statement(Statement("))
    call = s.value.args[0]
    ind = " " * s.col_offset
    return replace_node(mod, s, f"appended = {mod.segment(call)}\n{ind}appended._used_vars = stmt._used_vars\n{ind}self.add_statement(appended)")


@variant("C15", "stale-size-in-crossover-guard", CROSS, "C15.length", "length guard reads a size taken before the tail was appended")
def _v5(repo, mod):
    fn = repo.func(CROSS, "splice_test_case_chromosomes")
    g = find_stmt(fn, lambda s: isinstance(s, ast.If) and "chromosome_length" in norm(s.test))
    ap = find_stmt(fn, lambda s: isinstance(s, ast.Expr) and "append_test_case_from" in norm(s))
    return replace_nodes(mod, [(ap, "size = offspring_test_case.size()\n    " + norm(ap)), (g.test, "size < config.configuration.search_algorithm.chromosome_length")])


@variant("C15", "insertion-loop-unbounded", MUT, "C15.length", "insertion loop no longer tests the length")
def _v6(repo, mod):
    fn = repo.func(MUT, "TestCaseMutation._mutation_insert")
    w = find_stmt(fn, lambda s: isinstance(s, ast.While))
    return replace_node(mod, w.test, norm(w.test.values[0]))


@variant("C15", "clone-resets-name-counter", TC, "C15.names", "clone starts its names at var_0 again")
def _v7(repo, mod):
    fn = repo.func(TC, "TestCase.clone")
    return delete_stmt(mod, find_stmt(fn, lambda s: isinstance(s, ast.Assign) and norm(s) == "tc._var_counter = self._var_counter"))


@variant("C15", "twin-unused-local", TC, None, "behaviour-preserving edit")
def _v8(repo, mod):
    fn = repo.func(TC, "TestCase.replace_statement")
    return insert_before(mod, fn.body[-1], "_unused = index")


TF = "pynguin.testcase.testfactory"


def _scan(repo):
    fn = repo.func(TF, "TestFactory._find_variable_of_type")
    return fn, find_stmt(fn, lambda s: isinstance(s, ast.If) and any(isinstance(b, ast.Break) for b in s.body))


@variant("C15", "operand-scan-unbounded", TF, "C15.bound-before-use", "the candidate scan no longer stops at the position")
def _v20(repo, mod):
    _fn, brk = _scan(repo)
    return delete_stmt(mod, brk)


@variant("C15", "operand-scan-includes-position", TF, "C15.bound-before-use", "the statement at the position itself is offered")
def _v21(repo, mod):
    _fn, brk = _scan(repo)
    return replace_node(mod, brk.test, "idx > position")


@variant("C15", "operand-from-type-registry", TF, "C15.bound-before-use", "candidates taken from the whole-test-case registry")
def _v22(repo, mod):
    fn, _brk = _scan(repo)
    s = find_stmt(fn, lambda s: isinstance(s, ast.If) and norm(s.test) == "not candidates")
    return insert_before(mod, s, "candidates = list(test_case.variables_of_type(raw))")


@variant("C15", "operand-scan-skips-subclasses", TF, "C15.bound-before-use", "bool variables are withheld where an int is wanted (candidates != variables before the position)")
def _v23(repo, mod):
    fn, _brk = _scan(repo)
    n = find_node(fn, lambda n: isinstance(n, ast.BoolOp) and "issubclass" in norm(n))
    return replace_node(mod, n, "statement.bound_type is raw")


@variant("C15", "twin-scan-bound-rewritten", TF, None, "the same bound written the other way round, with an extra local, stays silent")
def _v24(repo, mod):
    _fn, brk = _scan(repo)
    return replace_node(mod, brk.test, "not (position > idx)")


@variant("C15", "cascade-not-transitive", TF, "C15.cascade", "readers of a removed reader's variable stay")
def _v40(repo, mod):
    fn = repo.func(TF, "TestFactory.delete_statement_gracefully")
    s = find_stmt(fn, lambda s: isinstance(s, ast.Expr) and norm(s) == "dead_vars.add(nbv)")
    return replace_node(mod, s, "pass")


@variant("C15", "cascade-skips-statements-binding-nothing", TF, "C15.cascade", "a bare expression statement reading the deleted variable stays")
def _v41(repo, mod):
    fn = repo.func(TF, "TestFactory.delete_statement_gracefully")
    s = find_stmt(fn, lambda s: isinstance(s, ast.If) and norm(s.test) == "statements[idx].used_variables() & dead_vars")
    return replace_node(mod, s.test, "statements[idx].bound_variable is not None and statements[idx].used_variables() & dead_vars")


@variant("C15", "twin-cascade-single-pass-worklist", TF, None, "intersection written with isdisjoint")
def _v42(repo, mod):
    fn = repo.func(TF, "TestFactory.delete_statement_gracefully")
    s = find_stmt(fn, lambda s: isinstance(s, ast.If) and norm(s.test) == "statements[idx].used_variables() & dead_vars")
    return replace_node(mod, s.test, "not statements[idx].used_variables().isdisjoint(dead_vars)")


@variant("C15", "clone-shares-the-type-registry-lists", TC, "C15.container", "clone copies the registry dict but shares its lists")
def _v50(repo, mod):
    fn = repo.func(TC, "TestCase.clone")
    s = find_stmt(fn, lambda s: isinstance(s, ast.Expr) and norm(s) == "tc._rebuild_registry()")
    return replace_node(mod, s, "tc._type_registry = dict(self._type_registry)")
