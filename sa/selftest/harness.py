"""Armed-check self-test: AST-located one-instance edits applied as an in-memory
overlay of the analysed tree (no file of /repo is touched, nothing is executed).

A variant = (property, name, module, edit(repo, module) -> new source, expected
rule or None for a passing twin).  The edited module must still compile.
"""

from __future__ import annotations

import ast
import importlib
from dataclasses import dataclass
from typing import Callable

from sa.engine.index import AnalysisError, Module, Repo
from sa.engine.report import Ctx, load_known


@dataclass
class Variant:
    prop: str
    name: str
    module: str
    edit: Callable[[Repo, Module], str]
    expect: str | None  # rule id that must fire as a NEW finding; None => twin, must stay silent
    note: str = ""


REGISTRY: dict[str, list[Variant]] = {}


def variant(prop: str, name: str, module: str, expect: str | None, note: str = ""):
    def deco(fn):
        REGISTRY.setdefault(prop, []).append(Variant(prop, name, module, fn, expect, note))
        return fn

    return deco


def _load(prop: str) -> None:
    try:
        importlib.import_module(f"sa.selftest.v_{prop.lower()}")
    except ModuleNotFoundError as exc:
        if f"v_{prop.lower()}" not in str(exc):
            raise


def variants_for(prop: str) -> list[str]:
    _load(prop)
    return [v.name for v in REGISTRY.get(prop, [])]


# ----------------------------------------------------------------------- text edits located by AST nodes
def _offsets(src: str):
    lines = src.splitlines(keepends=True)
    starts = [0]
    for l in lines:
        starts.append(starts[-1] + len(l.encode("utf-8")))
    return starts


def span(mod: Module, node: ast.AST) -> tuple[int, int]:
    """Byte span of node in mod.source (utf-8)."""
    st = _offsets(mod.source)
    a = st[node.lineno - 1] + node.col_offset
    b = st[node.end_lineno - 1] + node.end_col_offset
    return a, b


def replace_nodes(mod: Module, repl: list[tuple[ast.AST, str]]) -> str:
    data = mod.source.encode("utf-8")
    spans = sorted(((span(mod, n), t) for n, t in repl), key=lambda x: x[0][0], reverse=True)
    for (a, b), t in spans:
        data = data[:a] + t.encode("utf-8") + data[b:]
    return data.decode("utf-8")


def replace_node(mod: Module, node: ast.AST, text: str) -> str:
    return replace_nodes(mod, [(node, text)])


def delete_stmt(mod: Module, stmt: ast.stmt) -> str:
    return replace_node(mod, stmt, "pass")


def node_text(mod: Module, node: ast.AST) -> str:
    a, b = span(mod, node)
    return mod.source.encode("utf-8")[a:b].decode("utf-8")


def sub_in_node(mod: Module, node: ast.AST, old: str, new: str, count: int = 1) -> str:
    t = node_text(mod, node)
    if old not in t:
        raise AnalysisError(f"self-test edit: {old!r} not found in {mod.name}:{getattr(node, 'lineno', '?')}")
    return replace_node(mod, node, t.replace(old, new, count))


def insert_before(mod: Module, stmt: ast.stmt, text: str) -> str:
    """Insert a statement line before `stmt` with the same indentation."""
    indent = " " * stmt.col_offset
    lines = mod.source.splitlines(keepends=True)
    first = stmt.lineno - 1
    if getattr(stmt, "decorator_list", None):
        first = min(d.lineno for d in stmt.decorator_list) - 1
    new = "".join(indent + l + "\n" for l in text.splitlines())
    return "".join(lines[:first]) + new + "".join(lines[first:])


def insert_after(mod: Module, stmt: ast.stmt, text: str) -> str:
    indent = " " * stmt.col_offset
    lines = mod.source.splitlines(keepends=True)
    new = "".join(indent + l + "\n" for l in text.splitlines())
    return "".join(lines[: stmt.end_lineno]) + new + "".join(lines[stmt.end_lineno :])


def find_stmt(fn: ast.AST, pred) -> ast.stmt:
    for n in ast.walk(fn):
        if isinstance(n, ast.stmt) and n is not fn and pred(n):
            return n
    raise AnalysisError(f"self-test edit: no statement matches in {getattr(fn, 'name', fn)}")


def find_node(root: ast.AST, pred) -> ast.AST:
    for n in ast.walk(root):
        if pred(n):
            return n
    raise AnalysisError("self-test edit: no node matches")


# ----------------------------------------------------------------------- running
def run_variant(prop: str, vname: str, root: str) -> dict:
    _load(prop)
    v = next(x for x in REGISTRY[prop] if x.name == vname)
    base = Repo(root)
    mod = base.module(v.module)
    new_src = v.edit(base, mod)
    if new_src == mod.source:
        return {"variant": vname, "ok": False, "detail": "edit produced no change"}
    compile(new_src, mod.relpath, "exec")  # must still compile
    repo = Repo(root, overlay={v.module: new_src})
    chk = importlib.import_module(f"sa.checks.{prop.lower()}")
    ctx = Ctx(prop, repo, "quick")
    try:
        chk.check(ctx)
        err = None
    except AnalysisError as exc:
        err = str(exc)
    known = {k["key"] for k in load_known().get("known", []) if k.get("property") == prop}
    new = [f for f in ctx.findings if f.key not in known]
    if v.expect is None:
        ok = not new and err is None
        detail = "twin silent" if ok else f"twin raised: {[f.key for f in new][:3]} {err or ''}"
    else:
        hits = [f for f in new if f.rule == v.expect or f.rule.startswith(v.expect)]
        ok = bool(hits)
        detail = (
            f"reported {hits[0].rule} at {hits[0].module}:{hits[0].construct} :: {hits[0].stmt[:80]}"
            if ok
            else f"expected {v.expect}; got new={[f.rule for f in new][:5]} err={err}"
        )
    return {"variant": vname, "expect": v.expect, "ok": ok, "detail": detail, "note": v.note}


def text_edit(mod: Module, old: str, new: str, count: int = 1) -> str:
    """Replace a source fragment (for multi-line restructurings that are awkward to express node by node)."""
    if mod.source.count(old) < 1:
        raise AnalysisError(f"self-test edit: fragment not found in {mod.name}: {old[:60]!r}")
    return mod.source.replace(old, new, count)
