import ast

from sa.engine.index import norm
from sa.selftest.harness import delete_stmt, find_node, find_stmt, insert_before, replace_node, replace_nodes, sub_in_node, variant

TR = "pynguin.instrumentation.tracer"
CF = "pynguin.instrumentation.controlflow"
P310 = "pynguin.instrumentation.version.python3_10"
P311 = "pynguin.instrumentation.version.python3_11"
P312 = "pynguin.instrumentation.version.python3_12"
COMMON = "pynguin.instrumentation.version.common"
CONSTS = "pynguin.analyses.constants"


@variant("C01", "teardown-pops-once", P311, "C01.stack", "teardown of a copying setup action pops only the call result")
def _v1(repo, mod):
    fn = repo.func(P311, "Python311InstrumentationInstructionsGenerator.generate_teardown_instructions")
    rets = [n for n in ast.walk(fn) if isinstance(n, ast.Return) and isinstance(n.value, ast.Tuple) and len(n.value.elts) == 2]
    return replace_node(mod, rets[0].value, '(cf.ArtificialInstr("POP_TOP", lineno=lineno),)')


@variant("C01", "shift-down-without-swap", P311, "C01.stack", "COPY_SECOND_SHIFT_DOWN_TWO leaves the copy on top: DELETE_SUBSCR gets (key, container) swapped")
def _v2(repo, mod):
    fn = repo.func(P311, "Python311InstrumentationInstructionsGenerator.generate_setup_instructions")
    c = find_node(fn, lambda n: isinstance(n, ast.match_case) and norm(n.pattern).endswith("COPY_SECOND_SHIFT_DOWN_TWO"))
    t = find_node(c, lambda n: isinstance(n, ast.Tuple) and len(n.elts) == 2)
    return replace_node(mod, t, '(cf.ArtificialInstr("COPY", 2, lineno=lineno),)')


@variant("C01", "stack-argument-off-by-one", P311, "C01.stack", "stack arguments are copied from one slot too deep")
def _v3(repo, mod):
    fn = repo.func(P311, "Python311InstrumentationInstructionsGenerator._generate_argument_instructions")
    b = find_node(fn, lambda n: isinstance(n, ast.BinOp) and norm(n) == "position + 2 + arg.value")
    return replace_node(mod, b, "position + 3 + arg.value")


@variant("C01", "store-attr-before-instead-of-override", P312, "C01.stack", "overriding sequence spliced with before(): STORE_ATTR executes twice")
def _v4(repo, mod):
    fn = repo.func(P312, "CheckedCoverageInstrumentation.visit_attr_access")
    s = find_node(fn, lambda n: isinstance(n, ast.Call) and norm(n.func) == "override")
    return replace_node(mod, s.func, "before")


@variant("C01", "delete-subscr-reports-key", P310, "C01.stack", "DELETE_SUBSCR override uses the setup action of STORE_SUBSCR")
def _v5(repo, mod):
    fn = repo.func(P310, "CheckedCoverageInstrumentation.visit_subscr_access")
    a = find_node(fn, lambda n: isinstance(n, ast.Attribute) and norm(n) == "InstrumentationSetupAction.COPY_SECOND_SHIFT_DOWN_TWO")
    return replace_node(mod, a, "InstrumentationSetupAction.COPY_SECOND_SHIFT_DOWN_THREE")


@variant("C01", "bool-predicate-reads-second", P310, "C01.stack", "bool predicate reports the value below the tested one")
def _v6(repo, mod):
    fn = repo.func(P310, "BranchCoverageInstrumentation.visit_bool_based_conditional_jump")
    a = find_node(fn, lambda n: isinstance(n, ast.Attribute) and norm(n) == "InstrumentationStackValue.FIRST")
    return replace_node(mod, a, "InstrumentationStackValue.SECOND")


@variant("C01", "seeding-adds-in-bytecode", P310, "C01.opcodes", "startswith seeding concatenates in the spliced bytecode again")
def _v7(repo, mod):
    fn = repo.func(P310, "DynamicSeedingInstrumentation.visit_startswith_function")
    a = find_node(fn, lambda n: isinstance(n, ast.Attribute) and norm(n) == "InstrumentationSetupAction.COPY_FIRST_TWO")
    t = find_node(fn, lambda n: isinstance(n, ast.Tuple) and len(n.elts) == 2 and norm(n.elts[0]).startswith("InstrumentationStackValue"))
    return replace_nodes(mod, [(a, "InstrumentationSetupAction.ADD_FIRST_TWO_REVERSED"), (t, "(InstrumentationStackValue.FIRST,)")])


@variant("C01", "fast-load-unchecked", P312, "C01.unbound", "3.12 generator reads locals with LOAD_FAST")
def _v8(repo, mod):
    fn = repo.func(P312, "Python312InstrumentationInstructionsGenerator._generate_argument_instructions")
    c = find_node(fn, lambda n: isinstance(n, ast.Constant) and n.value == "LOAD_FAST_CHECK")
    return replace_node(mod, c, '"LOAD_FAST"')


@variant("C01", "restore-store-read", P312, "C01.unbound", "only LOAD_FAST_AND_CLEAR is treated as possibly unbound")
def _v9(repo, mod):
    fn = repo.func(P312, "CheckedCoverageInstrumentation._is_unbound_allowed")
    r = [n for n in ast.walk(fn) if isinstance(n, ast.Return)][-1]
    return replace_node(mod, r.value, "False")


@variant("C01", "provider-yields-instruction-position", CF, "C01.index", "instrumentation_original_instructions hands out positions counted over instructions")
def _v10(repo, mod):
    fn = repo.func(CF, "BasicBlockNode.instrumentation_original_instructions")
    y = find_node(fn, lambda n: isinstance(n, ast.Yield))
    return replace_node(mod, y.value.elts[0], "instr_index")


@variant("C01", "find-counts-instructions-only", CF, "C01.index", "find_instruction_by_original_index enumerates the instructions, not the block")
def _v11(repo, mod):
    fn = repo.func(CF, "BasicBlockNode.find_instruction_by_original_index")
    c = find_node(fn, lambda n: isinstance(n, ast.Attribute) and norm(n) == "self._basic_block")
    return replace_node(mod, c, "self.instructions")


@variant("C01", "seeding-raw-position", P310, "C01.index", "compare seeding splices at the instruction position again")
def _v12(repo, mod):
    fn = repo.func(P310, "DynamicSeedingInstrumentation.visit_node")
    c = find_node(fn, lambda n: isinstance(n, ast.Call) and norm(n) == "node.block_index_of(maybe_compare_index)")
    return replace_node(mod, c, "maybe_compare_index")


@variant("C01", "complement-uncontained", TR, "C01.observe", "the complementary distance propagates what it raises")
def _v13(repo, mod):
    fn = repo.func(TR, "_complement")
    t = find_stmt(fn, lambda s: isinstance(s, ast.Try))
    return replace_node(mod, t, "return distance(val1, val2)")


@variant("C01", "iterator-searched", TR, "C01.observe", "membership distance is computed for one-shot iterators")
def _v14(repo, mod):
    fn = repo.func(TR, "ExecutionTracer.executed_compare_predicate")
    s = find_stmt(fn, lambda s: isinstance(s, ast.If) and "Iterator" in norm(s.test))
    return delete_stmt(mod, s)


@variant("C01", "bool-distance-overflows", TR, "C01.observe", "float(abs(value)) unprotected")
def _v15(repo, mod):
    fn = repo.func(TR, "ExecutionTracer.executed_bool_predicate")
    c = find_node(fn, lambda n: isinstance(n, ast.Call) and norm(n.func) == "_positive_distance")
    return replace_node(mod, c, "float(abs(value))")


@variant("C01", "len-of-anything-sized", TR, "C01.observe", "len() asked of objects that define __bool__")
def _v16(repo, mod):
    fn = repo.func(TR, "ExecutionTracer.executed_bool_predicate")
    t = find_node(fn, lambda n: isinstance(n, ast.BoolOp) and "Sized" in norm(n))
    return replace_node(mod, t, "isinstance(value, Sized)")


@variant("C01", "string-seeding-unguarded", CONSTS, "C01.observe", "add_value_for_strings without the str guard (seed C01-a)")
def _v17(repo, mod):
    fn = repo.func(CONSTS, "DynamicConstantProvider.add_value_for_strings")
    t = find_node(fn, lambda n: isinstance(n, ast.Call) and norm(n) == "isinstance(value, str)")
    return replace_node(mod, t, "True")


@variant("C01", "concatenation-of-anything", CONSTS, "C01.observe", "concatenation attempted for arbitrary operands")
def _v18(repo, mod):
    fn = repo.func(CONSTS, "DynamicConstantProvider.add_value_for_concatenation")
    s = find_stmt(fn, lambda s: isinstance(s, ast.If))
    return replace_node(mod, s.test, "True")


@variant("C01", "attribute-lookup-traced", TR, "C01.observe", "attribute lookup with tracing enabled and uncontained")
def _v19(repo, mod):
    fn = repo.func(TR, "ExecutionTracer.track_attribute_access")
    w = find_stmt(fn, lambda s: isinstance(s, ast.With))
    return replace_node(mod, w, "if True:\n                src_address = self.attribute_lookup(obj, attr_name)\n                attr_value = getattr(obj, attr_name)\n                arg_address = id(attr_value)\n                arg_type = type(attr_value)")


@variant("C01", "super-attr-name-unknown", COMMON, "C01.total", "extract_name without the LOAD_SUPER_ATTR shape")
def _v20(repo, mod):
    fn = repo.func(COMMON, "extract_name")
    c = find_node(fn, lambda n: isinstance(n, ast.MatchOr))
    return replace_node(mod, c, "(bool(), str(name))")


@variant("C01", "jump-target-unconditional", P310, "C01.total", "visit_jump asks for the block index of every argument")
def _v21(repo, mod):
    fn = repo.func(P310, "CheckedCoverageInstrumentation.visit_jump")
    e = find_node(fn, lambda n: isinstance(n, ast.IfExp))
    return replace_node(mod, e, "cfg.bytecode_cfg.get_block_index(instr.arg)")


@variant("C01", "twin-eq-decode-latin1-name", TR, None, "behaviour-preserving: same codec under its alias")
def _v22(repo, mod):
    fn = repo.func(TR, "_eq")
    cs = [n for n in ast.walk(fn) if isinstance(n, ast.Constant) and n.value == "iso-8859-1"]
    return replace_nodes(mod, [(c, '"latin-1"') for c in cs])


@variant("C01", "twin-generator-local-name", P311, None, "behaviour-preserving: rename inside the generator")
def _v23(repo, mod):
    fn = repo.func(P311, "Python311InstrumentationInstructionsGenerator.generate_method_call_instructions")
    return insert_before(mod, fn.body[0], "count = len(method_call.args)")


@variant("C01", "twin-complement-narrower-docstring", TR, None, "behaviour-preserving: unused local in the tracer callback")
def _v24(repo, mod):
    fn = repo.func(TR, "ExecutionTracer.executed_bool_predicate")
    return insert_before(mod, fn.body[0], "_unused = predicate")
