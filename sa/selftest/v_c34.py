import ast

from sa.engine.index import norm
from sa.selftest.harness import delete_stmt, find_stmt, insert_after, insert_before, replace_node, sub_in_node, variant

M = "pynguin.utils.orderedset"


@variant("C34", "double-consume-intersection-update", M, "C34.once", "second pass over `other` in intersection_update")
def _v1(repo, mod):
    fn = repo.func(M, "OrderedSet.intersection_update")
    first = [s for s in fn.body if not (isinstance(s, ast.Expr) and isinstance(s.value, ast.Constant))][0]
    return insert_before(mod, first, "if not any(True for _ in other):\n    return")


@variant("C34", "symdiff-not-materialised", M, "C34.once", "the original defect: cls(other) after difference(other)")
def _v2(repo, mod):
    fn = repo.func(M, "_AbstractOrderedSet.symmetric_difference")
    s = find_stmt(fn, lambda s: isinstance(s, ast.Assign) and norm(s.targets[0]) == "other_set")
    return replace_node(mod, s, "other_set = other")


@variant("C34", "twin-materialise-as-tuple", M, None, "materialise with tuple() instead of cls()")
def _v3(repo, mod):
    fn = repo.func(M, "OrderedSet.intersection_update")
    s = find_stmt(fn, lambda s: isinstance(s, ast.Assign) and norm(s.targets[0]) == "other")
    return replace_node(mod, s, "other = frozenset(other)")


@variant("C34", "drop-negative-normalisation", M, "C34.neg", "remove the index < 0 normalisation")
def _v4(repo, mod):
    for key, fn in mod.functions.items():
        if key.split("#")[0] == "_AbstractOrderedSet.__getitem__" and not any(norm(d) == "overload" for d in fn.decorator_list):
            s = find_stmt(fn, lambda s: isinstance(s, ast.If) and "< 0" in norm(s.test))
            return delete_stmt(mod, s)
    raise AssertionError


@variant("C34", "difference-via-set", M, "C34.order", "difference returns cls(set(self) - other): order lost")
def _v5(repo, mod):
    fn = repo.func(M, "_AbstractOrderedSet.difference")
    r = [s for s in fn.body if isinstance(s, ast.Return)][-1]
    return replace_node(mod, r, "return cls(set(self) - other)")


@variant("C34", "items-from-set", M, "C34.order", "difference_update rebuilds _items from a set difference")
def _v6(repo, mod):
    fn = repo.func(M, "OrderedSet.difference_update")
    s = find_stmt(fn, lambda s: isinstance(s, ast.Assign) and norm(s.targets[0]) == "self._items")
    return replace_node(mod, s, "self._items = dict.fromkeys(set(self._items) - items_to_remove)")


@variant("C34", "issubset-membership-on-iterator", M, "C34.once", "issubset without materialising")
def _v7(repo, mod):
    fn = repo.func(M, "_AbstractOrderedSet.issubset")
    s = find_stmt(fn, lambda s: isinstance(s, ast.If) and "isinstance" in norm(s.test))
    return delete_stmt(mod, s)
