import ast

from sa.engine.index import norm
from sa.selftest.harness import delete_stmt, find_stmt, insert_after, insert_before, replace_node, sub_in_node, variant

M = "pynguin.utils.orderedset"
MOD = M


@variant("C34", "double-consume-intersection-update", M, "C34.once", "second pass over `other` in intersection_update")
def _v1(repo, mod):
    fn = repo.func(M, "OrderedSet.intersection_update")
    first = [s for s in fn.body if not (isinstance(s, ast.Expr) and isinstance(s.value, ast.Constant))][0]
    return insert_before(mod, first, "if not any(True for _ in other):\n    return")


@variant("C34", "symdiff-not-materialised", M, "C34.once", "the original defect: cls(other) after difference(other)")
def _v2(repo, mod):
    fn = repo.func(M, "_AbstractOrderedSet.symmetric_difference")
    s = find_stmt(fn, lambda s: isinstance(s, ast.Assign) and norm(s.targets[0]) == "other_set")
    return replace_node(mod, s, "other_set = other")


@variant("C34", "twin-materialise-as-tuple", M, None, "materialise with tuple() instead of cls()")
def _v3(repo, mod):
    fn = repo.func(M, "OrderedSet.intersection_update")
    s = find_stmt(fn, lambda s: isinstance(s, ast.Assign) and norm(s.targets[0]) == "other")
    return replace_node(mod, s, "other = frozenset(other)")


@variant("C34", "drop-negative-normalisation", M, "C34.neg", "remove the index < 0 normalisation")
def _v4(repo, mod):
    for key, fn in mod.functions.items():
        if key.split("#")[0] == "_AbstractOrderedSet.__getitem__" and not any(norm(d) == "overload" for d in fn.decorator_list):
            s = find_stmt(fn, lambda s: isinstance(s, ast.If) and "< 0" in norm(s.test))
            return delete_stmt(mod, s)
    raise AssertionError


@variant("C34", "difference-via-set", M, "C34.order", "difference returns cls(set(self) - other): order lost")
def _v5(repo, mod):
    fn = repo.func(M, "_AbstractOrderedSet.difference")
    r = [s for s in fn.body if isinstance(s, ast.Return)][-1]
    return replace_node(mod, r, "return cls(set(self) - other)")


@variant("C34", "items-from-set", M, "C34.order", "difference_update rebuilds _items from a set difference")
def _v6(repo, mod):
    fn = repo.func(M, "OrderedSet.difference_update")
    s = find_stmt(fn, lambda s: isinstance(s, ast.Assign) and norm(s.targets[0]) == "self._items")
    return replace_node(mod, s, "self._items = dict.fromkeys(set(self._items) - items_to_remove)")


@variant("C34", "issubset-membership-on-iterator", M, "C34.once", "issubset without materialising")
def _v7(repo, mod):
    fn = repo.func(M, "_AbstractOrderedSet.issubset")
    s = find_stmt(fn, lambda s: isinstance(s, ast.If) and "isinstance" in norm(s.test))
    return delete_stmt(mod, s)


@variant("C34", "issuperset-size-shortcut-for-any-sized-operand", MOD, "C34.laws", "duplicates in a list operand make issuperset answer False (the repaired defect)")
def _v20(repo, mod):
    fn = repo.methods(repo.cls(MOD, "_AbstractOrderedSet"))["issuperset"]
    s = find_stmt(fn, lambda s: isinstance(s, ast.If))
    return replace_node(mod, s.test, "isinstance(other, Collection) and len(self) < len(other)")


@variant("C34", "difference-update-pops-in-place", MOD, "C34.laws", "difference_update iterates the operand lazily while popping: s.difference_update(s) breaks")
def _v21(repo, mod):
    fn = repo.methods(repo.cls(MOD, "OrderedSet"))["difference_update"]
    from sa.selftest.harness import node_text
    head = node_text(mod, fn).split('"""')[0]
    doc = node_text(mod, fn).split('"""')[1]
    return replace_node(mod, fn, head + '"""' + doc + '"""\n        for other in others:\n            for item in other:\n                self._items.pop(item, None)')


@variant("C34", "symmetric-difference-update-keeps-common", MOD, "C34.laws", "elements of both sets survive the in-place symmetric difference")
def _v22(repo, mod):
    fn = repo.methods(repo.cls(MOD, "OrderedSet"))["symmetric_difference_update"]
    s = find_stmt(fn, lambda s: isinstance(s, ast.Assign) and norm(s.targets[0]) == "self._items")
    return delete_stmt(mod, s)


@variant("C34", "intersection-order-of-the-operand", MOD, "C34.laws", "intersection iterates the operand, not the receiver")
def _v23(repo, mod):
    fn = repo.methods(repo.cls(MOD, "_AbstractOrderedSet"))["intersection"]
    r = [s for s in fn.body if isinstance(s, ast.Return)][-1]
    return replace_node(mod, r.value, "cls(item for item in common if item in self)")


@variant("C34", "union-skips-receiver-order", MOD, "C34.laws", "union puts the operand's elements first")
def _v24(repo, mod):
    fn = repo.methods(repo.cls(MOD, "_AbstractOrderedSet"))["union"]
    s = find_stmt(fn, lambda s: isinstance(s, ast.Assign) and norm(s.targets[0]) == "merged_iterables")
    return replace_node(mod, s.value, 'itertools.chain(others, [cast("Iterable[T]", self)])')


@variant("C34", "getitem-off-by-one-for-negative", MOD, "C34.laws", "negative indices are normalised with len - 1")
def _v25(repo, mod):
    fn = [f for f in repo.cls(MOD, "_AbstractOrderedSet").body if isinstance(f, ast.FunctionDef) and f.name == "__getitem__"][-1]
    s = find_stmt(fn, lambda s: isinstance(s, ast.AugAssign))
    return replace_node(mod, s.value, "len(self._items) - 1")


@variant("C34", "twin-issuperset-materialises", MOD, None, "issuperset through a materialised set stays silent")
def _v26(repo, mod):
    fn = repo.methods(repo.cls(MOD, "_AbstractOrderedSet"))["issuperset"]
    r = [s for s in fn.body if isinstance(s, ast.Return)][-1]
    return replace_node(mod, r.value, "all(item in self._items for item in tuple(other))")


@variant("C34", "issubset-by-the-operands-own-contains", MOD, "C34.edges", "substring semantics for str / bytes operands (the repaired defect)")
def _v40(repo, mod):
    from sa.selftest.harness import text_edit
    return text_edit(mod, "        if not isinstance(other, AbstractSet):\n            # Only the elements", "        if not isinstance(other, (AbstractSet, str, bytes, list, tuple, dict)):\n            # Only the elements")


@variant("C34", "falsy-iterable-treated-as-empty", MOD, "C34.edges", "`iterable or ()` in the constructor (the repaired defect)")
def _v41(repo, mod):
    from sa.selftest.harness import text_edit
    return text_edit(mod, "dict.fromkeys(() if iterable is None else iterable)", "dict.fromkeys(iterable or ())")


@variant("C34", "twin-none-check-first", MOD, None, "constructor written as an if statement")
def _v42(repo, mod):
    from sa.selftest.harness import text_edit
    return text_edit(mod, "        self._items: dict[T, None] = dict.fromkeys(() if iterable is None else iterable)", "        if iterable is None:\n            iterable = ()\n        self._items: dict[T, None] = dict.fromkeys(iterable)")
