import ast

from sa.engine.index import norm
from sa.selftest.harness import delete_stmt, find_node, find_stmt, insert_before, replace_node, replace_nodes, sub_in_node, variant

TS = "pynguin.analyses.typesystem"
GEN = "pynguin.analyses.generator"
MOD = "pynguin.analyses.module"


@variant("C26", "edge-without-invalidation", TS, "C26.type-cache", "add_subclass_edge no longer clears the memoised queries (the repaired defect)")
def _v1(repo, mod):
    fn = repo.func(TS, "TypeSystem.add_subclass_edge")
    return delete_stmt(mod, find_stmt(fn, lambda s: isinstance(s, ast.Expr) and "_clear_query_caches" in norm(s)))


@variant("C26", "distance-cache-not-cleared", TS, "C26.type-cache", "subtype_distance left out of _clear_query_caches")
def _v2(repo, mod):
    fn = repo.func(TS, "TypeSystem._clear_query_caches")
    return delete_stmt(mod, find_stmt(fn, lambda s: isinstance(s, ast.Expr) and "subtype_distance.cache_clear" in norm(s)))


@variant("C26", "generator-bucket-cache-kept", GEN, "C26.gen-cache", "_get_for_type not cleared by clear_generator_cache")
def _v3(repo, mod):
    fn = repo.func(GEN, "GeneratorProvider.clear_generator_cache")
    return delete_stmt(mod, find_stmt(fn, lambda s: isinstance(s, ast.Expr) and "_get_for_type.cache_clear" in norm(s)))


@variant("C26", "return-type-update-keeps-cache", MOD, "C26.gen-cache", "update_return_type no longer clears the generator cache")
def _v4(repo, mod):
    fn = repo.func(MOD, "ModuleTestCluster.update_return_type")
    return delete_stmt(mod, find_stmt(fn, lambda s: isinstance(s, ast.Expr) and "clear_generator_cache" in norm(s)))


@variant("C26", "class-distance-ignored-for-generics", TS, "C26.compatible", "list[int] offered for set[int] (the repaired defect)")
def _v5(repo, mod):
    fn = repo.methods(repo.cls(TS, "_SubtypeDistanceVisitor"))["visit_instance"]
    s = find_stmt(fn, lambda s: isinstance(s, ast.If) and norm(s.test) == "class_distance is None")
    return replace_node(mod, s, "if class_distance is None:\n                    class_distance = 0")


@variant("C26", "tuple-arity-not-checked", TS, "C26.compatible", "tuple distance compares the common prefix only")
def _v6(repo, mod):
    fn = repo.methods(repo.cls(TS, "_SubtypeDistanceVisitor"))["visit_tuple_type"]
    s = find_stmt(fn, lambda s: isinstance(s, ast.If) and "len(supertype.args)" in norm(s.test))
    return replace_node(mod, s.test, "isinstance(self.subtype, TupleType)")


@variant("C26", "rank-provider-arguments-swapped", GEN, "C26.provider-shape", "rank-based provider asks distance(generated, requested)")
def _v7(repo, mod):
    fn = repo.func(GEN, "GeneratorProvider._get_generators_for")
    c = find_node(fn, lambda n: isinstance(n, ast.Call) and norm(n.func).endswith("subtype_distance"))
    return replace_node(mod, c, "self._type_system.subtype_distance(generated_typ, typ)")


@variant("C26", "twin-unused-local", GEN, None, "behaviour-preserving edit")
def _v8(repo, mod):
    fn = repo.func(GEN, "GeneratorProvider.clear_generator_cache")
    return insert_before(mod, fn.body[-1], "_unused = 0")


@variant("C26", "accessor-returns-defensive-copy", GEN, "C26.live-bucket", "get_for_type hands out a copy while _drop_generator discards through it")
def _v30(repo, mod):
    fn = repo.func(GEN, "GeneratorProvider.get_for_type")
    r = find_stmt(fn, lambda s: isinstance(s, ast.Return))
    return replace_node(mod, r.value, "OrderedSet(self._generators.get(proper_type, ()))")
