import ast

from sa.engine.index import norm
from sa.selftest.harness import delete_stmt, find_node, find_stmt, insert_before, replace_node, replace_nodes, sub_in_node, variant

TR = "pynguin.instrumentation.transformer"
V10 = "pynguin.instrumentation.version.python3_10"
V11 = "pynguin.instrumentation.version.python3_11"


def _guard_if(fn, method):
    return find_stmt(fn, lambda s: isinstance(s, ast.If) and method in norm(s.test))


@variant("C08", "line-guard-dropped", V10, "C08.guard", "LineCoverageInstrumentation.visit_node registers lines without asking should_cover_line")
def _v1(repo, mod):
    fn = repo.func(V10, "LineCoverageInstrumentation.visit_node")
    return delete_stmt(mod, _guard_if(fn, "should_cover_line"))


@variant("C08", "guard-extra-conjunct", V11, "C08.guard", "the conditional-statement guard only applies to blocks with more than one instruction")
def _v2(repo, mod):
    fn = repo.func(V11, "BranchCoverageInstrumentation.visit_node")
    g = _guard_if(fn, "should_cover_conditional_statement")
    return replace_node(mod, g.test, "len(node.basic_block) > 1 and " + norm(g.test))


@variant("C08", "code-object-guard-negated", TR, "C08.guard", "should_be_covered guard loses its `not`")
def _v3(repo, mod):
    fn = repo.func(TR, "InstrumentationTransformer._instrument_code_recursive")
    g = _guard_if(fn, "should_be_covered")
    return replace_node(mod, g.test, norm(g.test).replace("not ast_info.should_be_covered()", "ast_info.should_be_covered()"))


@variant("C08", "exclusive-end-in-blocks", TR, "C08.inclusive", "range(start, end) in _find_excluded_block_lines drops the last line of a __main__ block")
def _v4(repo, mod):
    fn = repo.func(TR, "ModuleAstInfo._find_excluded_block_lines")
    r = find_node(fn, lambda n: isinstance(n, ast.Call) and norm(n.func) == "range")
    return replace_node(mod, r, "range(start, end)")


@variant("C08", "flags-swapped", TR, "C08.sources", "the pragma pattern is gated by the pynguin flag")
def _v5(repo, mod):
    fn = repo.func(TR, "ModuleAstInfo.from_path")
    x = find_node(fn, lambda n: isinstance(n, ast.IfExp) and "PRAGMA_NO_COVER_PATTERN" in norm(n.body))
    return replace_node(mod, x.test, "to_cover_config.enable_inline_pynguin_no_cover")


@variant("C08", "type-checking-blocks-kept", TR, "C08.pipeline", "TYPE_CHECKING blocks no longer excluded")
def _v6(repo, mod):
    fn = repo.func(TR, "ModuleAstInfo._find_excluded_block_lines")
    s = find_stmt(fn, lambda s: isinstance(s, ast.If) and "_is_type_checking(node)" in norm(s.test))
    return replace_node(mod, s.test, "_is_main(node)")


@variant("C08", "only-cover-beats-no-cover", TR, "C08.priority", "_in_cover consults only_cover before no_cover")
def _v7(repo, mod):
    fn = repo.func(TR, "AstInfo._in_cover")
    s = find_stmt(fn, lambda s: isinstance(s, ast.If) and "no_cover_lines" in norm(s.test))
    ind = " " * s.col_offset
    return replace_node(mod, s, f"if lineno in self.module.only_cover_lines:\n{ind}    return True\n{ind}" + norm(s).replace("\n", f"\n{ind}"))


@variant("C08", "any-enclosing", TR, "C08.priority", "should_be_covered uses any() over the enclosing definitions")
def _v8(repo, mod):
    fn = repo.func(TR, "AstInfo.should_be_covered")
    return sub_in_node(mod, fn.body[-1], "all(", "any(")


@variant("C08", "last-scope-wins", TR, "C08.first-scope", "get_scope takes the last match")
def _v9(repo, mod):
    fn = repo.func(TR, "ModuleAstInfo.get_scope")
    c = find_node(fn, lambda n: isinstance(n, ast.Call) and norm(n.func) == "iter")
    return replace_node(mod, c, "reversed(list(" + norm(c.args[0]) + "))")


@variant("C08", "twin-unused-local", TR, None, "behaviour-preserving edit")
def _v10(repo, mod):
    fn = repo.func(TR, "AstInfo._in_cover")
    return insert_before(mod, fn.body[-1], "_unused = lineno")


@variant("C08", "scope-names-lose-outer-prefix", TR, "C08.lines", "nested scopes are named without their outermost prefix (seed C08-c)")
def _vl1(repo, mod):
    fn = repo.func(TR, "ModuleAstInfo._get_scope_names")
    c = find_node(fn, lambda n: isinstance(n, ast.Call) and norm(n.func) == "cls._get_scope_names")
    return replace_node(mod, c.args[1], "node_scope_name")


@variant("C08", "finally-lines-from-handlers-first", TR, "C08.lines", "_try_finally_lines looks at the handlers before the else block (seed C08-d)")
def _vl2(repo, mod):
    fn = repo.func(TR, "AstInfo._try_finally_lines")
    a, b = fn.body[-3], fn.body[-2]
    return replace_nodes(mod, [(a, mod.segment(b)), (b, mod.segment(a))])


@variant("C08", "scope-by-def-line", TR, "C08.lines", "scopes are looked up by the line of the def keyword (decorated definitions are never found)")
def _vl3(repo, mod):
    fn = repo.func(TR, "ModuleAstInfo.get_scope")
    c = find_node(fn, lambda n: isinstance(n, ast.Call) and norm(n.func) == "self._first_line")
    return replace_node(mod, c, "scope_line_range(scope)[0]")


@variant("C08", "else-if-read-as-elif", TR, "C08.lines", "an else block with a single if counts as elif again")
def _vl4(repo, mod):
    fn = repo.func(TR, "_has_elif_block")
    c = find_node(fn, lambda n: isinstance(n, ast.Compare) and "col_offset" in norm(n))
    return replace_node(mod, c, "True")


@variant("C08", "cdg-keeps-jumps-on-excluded-lines", TR, "C08.lines", "the covered CDG no longer looks at the line of the jump")
def _vl5(repo, mod):
    fn = repo.func(TR, "InstrumentationTransformer._create_covered_cdg")
    c = find_node(fn, lambda n: isinstance(n, ast.Call) and norm(n) == "ast_info.should_cover_line(last_instr.lineno)")
    return replace_node(mod, c, "True")


@variant("C08", "while-else-marker-ignored", TR, "C08.lines", "else lines of loops are not consulted")
def _vl6(repo, mod):
    fn = repo.func(TR, "AstInfo.should_cover_line")
    c = find_node(fn, lambda n: isinstance(n, ast.Call) and norm(n) == "self._else_lines(branch_node)")
    return replace_node(mod, c, "()")


@variant("C08", "async-for-not-a-block-head", TR, "C08.pipeline", "ast.AsyncFor dropped from should_cover_line (the repaired defect)")
def _v60(repo, mod):
    from sa.selftest.harness import text_edit
    return text_edit(mod, "self.ast, (ast.If, ast.For, ast.AsyncFor, ast.While, ast.Match, ast.Try, TryStar)", "self.ast, (ast.If, ast.For, ast.While, ast.Match, ast.Try, TryStar)")


@variant("C08", "else-of-type-checking-excluded", TR, "C08.pipeline", "whole if statement excluded (the repaired defect)")
def _v61(repo, mod):
    from sa.selftest.harness import text_edit
    return text_edit(mod, "end = scope_line_range(node.body[-1])[1]", "end = scope_line_range(node)[1]")


@variant("C08", "last-definition-of-a-name-wins", TR, "C08.pipeline", "only the setter of a property pair excluded (the repaired defect)")
def _v62(repo, mod):
    from sa.selftest.harness import text_edit
    return text_edit(mod, "scope_names.setdefault(scope_name_, []).append(lineno)", "scope_names[scope_name_] = [lineno]")


@variant("C08", "only-cover-does-not-reach-nested-definitions", TR, "C08.pipeline", "_in_cover without the enclosing-definition disjunct (the repaired defect)")
def _v63(repo, mod):
    fn = repo.func(TR, "AstInfo._in_cover")
    r = find_stmt(fn, lambda s: isinstance(s, ast.Return) and isinstance(s.value, ast.BoolOp))
    return replace_node(mod, r.value.values[-1], "False")


@variant("C08", "definition-in-excluded-block-kept", TR, "C08.pipeline", "should_be_covered without the excluded-block test (the repaired defect)")
def _v64(repo, mod):
    fn = repo.func(TR, "AstInfo.should_be_covered")
    r = find_stmt(fn, lambda s: isinstance(s, ast.Return))
    return replace_node(mod, r.value.values[-1], "True")


@variant("C08", "markers-numbered-by-splitlines", TR, "C08.pipeline", "form feed shifts marker lines (the repaired defect)")
def _v65(repo, mod):
    fn = repo.func(TR, "ModuleAstInfo._find_lines_in_source_code")
    t = find_stmt(fn, lambda s: isinstance(s, ast.Try))
    return replace_node(mod, t, "return [lineno for lineno, line in enumerate(source_code.splitlines(), start=1) if pattern.search(line) is not None]")


@variant("C08", "source-read-as-plain-utf8", "pynguin.analyses.module", "C08.read", "BOM / encoding declaration not honoured (the repaired defect)")
def _v66(repo, mod):
    fn = repo.func("pynguin.analyses.module", "read_module_ast")
    w = find_stmt(fn, lambda s: isinstance(s, ast.With))
    return replace_node(mod, w, "source_code = Path(module_path).read_text(encoding='utf-8')")


@variant("C08", "twin-source-read-through-tokenize-bytes", "pynguin.analyses.module", None, "equivalent: decode the bytes with the detected encoding")
def _v67(repo, mod):
    fn = repo.func("pynguin.analyses.module", "read_module_ast")
    w = find_stmt(fn, lambda s: isinstance(s, ast.With))
    ind = " " * w.col_offset
    return replace_node(mod, w, f"source_file = tokenize.open(module_path)\n{ind}source_code = source_file.read()\n{ind}source_file.close()")


@variant("C08", "twin-block-range-by-last-body-statement", TR, None, "equivalent: end of the guarded block via end_lineno")
def _v68(repo, mod):
    from sa.selftest.harness import text_edit
    return text_edit(mod, "end = scope_line_range(node.body[-1])[1]", "end = node.body[-1].end_lineno or start")


@variant("C08", "marker-searched-in-raw-lines", TR, "C08.pipeline", "marker text inside a string literal excludes the line (the repaired defect)")
def _v70(repo, mod):
    fn = repo.func(TR, "ModuleAstInfo._find_lines_in_source_code")
    t = find_stmt(fn, lambda s: isinstance(s, ast.Try))
    return replace_node(mod, t, 'return [lineno for lineno, line in enumerate(re.split(r"\\r\\n|\\r|\\n", source_code), start=1) if pattern.search(line) is not None]')


@variant("C08", "tokenizer-without-universal-newlines", TR, "C08.pipeline", "bare carriage returns are not line ends for StringIO's default readline")
def _v71(repo, mod):
    from sa.selftest.harness import text_edit
    return text_edit(mod, "io.StringIO(source_code, newline=None).readline", "io.StringIO(source_code).readline")
