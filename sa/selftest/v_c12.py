import ast

from sa.engine.index import norm
from sa.selftest.harness import delete_stmt, find_node, find_stmt, insert_before, replace_node, replace_nodes, sub_in_node, variant

CC = "pynguin.ga.computation_cache"
CROSS = "pynguin.ga.operators.crossover"
MUT = "pynguin.ga.operators.mutation"


@variant("C12", "crossover-shares-test-cases", CROSS, "C12.alias", "suite crossover installs the other parent's chromosomes uncloned")
def _v1(repo, mod):
    fn = repo.func(CROSS, "splice_test_suite_chromosomes")
    s = find_stmt(fn, lambda s: isinstance(s, ast.Assign) and norm(s.targets[0]) == "parent.test_case_chromosomes")
    return replace_node(mod, s.value, "parent.test_case_chromosomes[:position1] + other.test_case_chromosomes[position2:]")


@variant("C12", "crossover-does-not-mark-changed", CROSS, "C12.set-changed", "suite crossover forgets the dirty flag")
def _v2(repo, mod):
    fn = repo.func(CROSS, "splice_test_suite_chromosomes")
    return delete_stmt(mod, find_stmt(fn, lambda s: isinstance(s, ast.Assign) and norm(s) == "parent.changed = True"))


@variant("C12", "partial-invalidation", CC, "C12.invalidate", "only the queried cache is cleared on a changed chromosome")
def _v3(repo, mod):
    fn = repo.func(CC, "ComputationCache._check_cache")
    s = find_stmt(fn, lambda s: isinstance(s, ast.Expr) and norm(s) == "self.invalidate_cache()")
    return replace_node(mod, s, "cache.clear()")


@variant("C12", "flag-cleared-before-recompute", CC, "C12.invalidate", "flag cleared before comp(only)")
def _v4(repo, mod):
    fn = repo.func(CC, "ComputationCache._check_cache")
    i = find_stmt(fn, lambda s: isinstance(s, ast.If) and norm(s.test) == "self._chromosome.changed")
    comp = next(s for s in i.body if isinstance(s, ast.Expr) and norm(s) == "comp(only)")
    clr = next(s for s in i.body if isinstance(s, ast.Assign) and norm(s) == "self._chromosome.changed = False")
    return replace_nodes(mod, [(comp, norm(clr)), (clr, norm(comp))])


@variant("C12", "change-result-discarded", MUT, "C12", "the result of _mutation_change() no longer reaches `changed`")
def _v5(repo, mod):
    fn = repo.func(MUT, "TestCaseMutation.mutate")
    s = find_stmt(fn, lambda s: isinstance(s, ast.If) and "_mutation_change()" in norm(s.test))
    ind = " " * s.col_offset
    return replace_node(mod, s, f"if randomness.next_float() <= config.configuration.search_algorithm.test_change_probability:\n{ind}    chromosome._mutation_change()")


@variant("C12", "size-only-key-check", CC, "C12.key", "missing-key test dropped from _check_cache (the repaired defect)")
def _v6(repo, mod):
    fn = repo.func(CC, "ComputationCache._check_cache")
    i = find_stmt(fn, lambda s: isinstance(s, ast.If) and norm(s.test) == "self._chromosome.changed")
    inner = i.orelse[0]
    return replace_node(mod, inner.test, "len(cache) != len(funcs)")


@variant("C12", "twin-comment-local", CC, None, "behaviour-preserving edit")
def _v7(repo, mod):
    fn = repo.func(CC, "ComputationCache._check_cache")
    i = find_stmt(fn, lambda s: isinstance(s, ast.If) and norm(s.test) == "self._chromosome.changed")
    return insert_before(mod, i, "_unused = only")


@variant("C12", "clone-shares-coverage-cache", "pynguin.ga.computation_cache", "C12.clone-fresh", "clone hands its own coverage cache to the copy (seed C12-c)")
def _vc1(repo, mod):
    fn = repo.func("pynguin.ga.computation_cache", "ComputationCache.clone")
    k = find_node(fn, lambda n: isinstance(n, ast.keyword) and n.arg == "coverage_cache")
    return replace_node(mod, k.value, "self._coverage_cache")


@variant("C12", "missing-values-not-computed-after-registration", CC, "C12.laws", "unchanged chromosome: only the requested key triggers a computation, a later registration is never computed")
def _v40(repo, mod):
    fn = repo.func(CC, "ComputationCache._check_cache")
    t = find_node(fn, lambda n: isinstance(n, ast.BoolOp) and isinstance(n.op, ast.Or) and "len(cache) != len(funcs)" in norm(n))
    return replace_node(mod, t, "(only is not None and only not in cache)")


@variant("C12", "fitness-sum-memoised", CC, "C12.laws", "sum of the fitness values memoised and not reset when a value is added")
def _v41(repo, mod):
    from sa.selftest.harness import text_edit
    src = text_edit(mod, "        return sum(self._fitness_cache.values())\n", "        try:\n            total = self._total\n        except AttributeError:\n            total = None\n        if total is None:\n            self._total = total = sum(self._fitness_cache.values())\n        return total\n")
    return src.replace("        self._fitness_cache.clear()\n", "        self._fitness_cache.clear()\n        self._total = None\n", 1)


@variant("C12", "twin-condition-reordered", CC, None, "disjuncts of the missing-value test swapped")
def _v42(repo, mod):
    fn = repo.func(CC, "ComputationCache._check_cache")
    t = find_node(fn, lambda n: isinstance(n, ast.BoolOp) and isinstance(n.op, ast.Or) and "len(cache) != len(funcs)" in norm(n))
    return replace_node(mod, t, "(only is not None and only not in cache) or len(funcs) != len(cache)")


@variant("C12", "restored-fitness-without-covered-verdict", CC, "C12.laws", "set_fitness_values leaves the covered verdict of the modified test (the repaired defect)")
def _v43(repo, mod):
    fn = repo.func(CC, "ComputationCache.set_fitness_values")
    s = find_stmt(fn, lambda s: isinstance(s, ast.Assign) and "_is_covered_cache" in norm(s.targets[0]))
    return delete_stmt(mod, s)
