import ast

from sa.engine.index import norm
from sa.selftest.harness import delete_stmt, find_stmt, insert_after, insert_before, replace_node, sub_in_node, variant

B = "pynguin.assertion.mutation_analysis.operators.base"
M = "pynguin.assertion.mutation_analysis.mutators"


@variant("C28", "restore-out-of-finally-list", B, "C28.restore", "the original defect: restore after the loop, not in finally")
def _v1(repo, mod):
    fn = repo.func(B, "MutationOperator._generic_visit_list")
    tr = find_stmt(fn, lambda s: isinstance(s, ast.Try))
    ind = " " * tr.col_offset
    body = "\n".join(l[4:] for l in mod.segment(tr.body[0]).splitlines())
    body = mod.segment(tr.body[0])
    lines = body.splitlines()
    de = [lines[0]] + [l[4:] if l.startswith(" " * 4) else l for l in lines[1:]]
    return replace_node(mod, tr, "\n".join(de) + f"\n{ind}{norm(tr.finalbody[0])}")


@variant("C28", "drop-restore-real-node", B, "C28.restore", "delete the setattr restore")
def _v2(repo, mod):
    fn = repo.func(B, "MutationOperator._generic_visit_real_node")
    tr = find_stmt(fn, lambda s: isinstance(s, ast.Try))
    return delete_stmt(mod, tr.finalbody[0])


@variant("C28", "visitor-writes-original", "pynguin.assertion.mutation_analysis.operators.decorator", "C28.pure", "DecoratorDeletion clears the decorator list of the original node")
def _v3(repo, mod):
    fn = repo.func(mod.name, "DecoratorDeletion.mutate_FunctionDef")
    s = find_stmt(fn, lambda s: isinstance(s, ast.Assign) and norm(s.targets[0]) == "mutated_node")
    return replace_node(mod, s, "mutated_node = node")


@variant("C28", "visitor-mutating-method-on-alias", "pynguin.assertion.mutation_analysis.operators.exception", "C28.pure", "pop() on node.body through an alias")
def _v4(repo, mod):
    fn = [f for k, f in mod.functions.items() if k.startswith("ExceptionHandlerDeletion.mutate_ExceptHandler")][0]
    s = find_stmt(fn, lambda s: isinstance(s, ast.Assign) and norm(s.targets[0]) == "first_statement")
    return replace_node(mod, s, "body = node.body\n" + " " * s.col_offset + "first_statement = body.pop(0)")


@variant("C28", "count-filters-operators", M, "C28.count", "mutation_count skips timeout-prone operators")
def _v5(repo, mod):
    fn = repo.func(M, "FirstOrderMutator.mutation_count")
    r = [s for s in fn.body if isinstance(s, ast.Return)][0]
    return replace_node(mod, r, "return sum(1 for op in self.operators if op not in _TIMEOUT_PRONE_OPERATORS for _ in op.mutate(target_ast, module))")


@variant("C28", "no-exhaust-after-yield", M, "C28.exhaust", "drop the exhausting assert after the yield in FirstOrderMutator.mutate")
def _v6(repo, mod):
    fn = repo.func(M, "FirstOrderMutator.mutate")
    s = [x for x in ast.walk(fn) if isinstance(x, ast.Assert) and "next(generator, None) is None" in norm(x)][0]
    return delete_stmt(mod, s)


@variant("C28", "twin-rename-local", B, None, "rename the loop variable `value` in _generic_visit_list")
def _v7(repo, mod):
    fn = repo.func(B, "MutationOperator._generic_visit_list")
    return replace_node(mod, fn, mod.segment(fn).replace("value", "orig_child").replace("old_orig_child", "old_value"))


@variant("C28", "first-order-count-bypasses-own-enumeration", M, "C28.count", "a subclass with its own mutate() inherits a count that does not enumerate it")
def _v30(repo, mod):
    return mod.source + '''

class SampledMutator(FirstOrderMutator):
    """Keeps every second mutant."""

    def mutate(self, target_ast, module):  # noqa: D102
        for index, item in enumerate(super().mutate(target_ast, module)):
            if index % 2 == 0:
                yield item
'''


@variant("C28", "positions-of-a-filtered-list", B, "C28.index-space", "children enumerated over a filtered copy, spliced by that position into the full list")
def _v31(repo, mod):
    fn = repo.func(B, "MutationOperator._generic_visit_list")
    lp = find_stmt(fn, lambda s: isinstance(s, ast.For) and "enumerate" in norm(s.iter))
    return replace_node(mod, lp.iter, "enumerate([v for v in old_value if isinstance(v, ast.AST)])")


@variant("C28", "twin-positions-of-a-tuple-copy", B, None, "enumerating tuple(old_value) stays silent")
def _v32(repo, mod):
    fn = repo.func(B, "MutationOperator._generic_visit_list")
    lp = find_stmt(fn, lambda s: isinstance(s, ast.For) and "enumerate" in norm(s.iter))
    return replace_node(mod, lp.iter, "enumerate(tuple(old_value))")


@variant("C28", "write-back-skipped-when-unchanged", "pynguin.assertion.mutation_analysis.operators.base", "C28.splice", "the previous mutant's replacement stays spliced in (seed C28-e)")
def _v50(repo, mod):
    from sa.selftest.harness import text_edit
    return text_edit(mod, "                setattr(node, field, mutated_node)\n                yield", "                if mutated_node is not old_value:\n                    setattr(node, field, mutated_node)\n                yield")
