import ast

from sa.engine.index import norm
from sa.selftest.harness import delete_stmt, find_node, find_stmt, insert_before, replace_node, sub_in_node, variant

M = "pynguin.analyses.module"


@variant("C27", "registration-outside-add-to-test", M, "C27.guard", "functions of dependency modules registered as under test")
def _v1(repo, mod):
    fn = repo.func(M, "__analyse_function")
    s = find_stmt(fn, lambda s: isinstance(s, ast.If) and norm(s.test) == "add_to_test" and "add_accessible_object_under_test" in norm(s))
    return replace_node(mod, s.test, "True")


@variant("C27", "origin-by-prefix", M, "C27.origin", "add_to_test decided by module-name prefix")
def _v2(repo, mod):
    fn = repo.func(M, "__analyse_included_classes")
    c = find_node(fn, lambda n: isinstance(n, ast.Call) and norm(n.func) == "__analyse_class")
    kw = next(k for k in c.keywords if k.arg == "add_to_test")
    return replace_node(mod, kw.value, "current.__module__.startswith(root_module_name)")


@variant("C27", "method-visibility-dropped", M, "C27.visibility", "methods no longer filtered by visibility")
def _v3(repo, mod):
    fn = repo.func(M, "__analyse_method")
    c = find_node(fn, lambda n: isinstance(n, ast.Call) and norm(n.func) == "__should_skip_by_visibility")
    return replace_node(mod, c, "False")


@variant("C27", "visibility-on-qualified-name", M, "C27.visibility", "visibility tested on the qualified name")
def _v4(repo, mod):
    fn = repo.func(M, "__analyse_function")
    c = find_node(fn, lambda n: isinstance(n, ast.Call) and norm(n.func) == "__should_skip_by_visibility")
    return replace_node(mod, c.args[0], "func_name")


@variant("C27", "public-keeps-protected", M, "C27.visibility", "default visibility lets protected names through")
def _v5(repo, mod):
    fn = repo.func(M, "__should_skip_by_visibility")
    mt = find_stmt(fn, lambda s: isinstance(s, ast.Match))
    last = mt.cases[-1].body[-1]
    return replace_node(mod, last.value, "__is_private(name)")


@variant("C27", "ignored-methods-analysed", M, "C27.ignored", "ignore_methods not applied to methods (the repaired defect)")
def _v6(repo, mod):
    fn = repo.func(M, "__analyse_method")
    c = find_node(fn, lambda n: isinstance(n, ast.Call) and norm(n.func) == "__is_ignored_method")
    return replace_node(mod, c, "False")


@variant("C27", "functions-not-blacklist-filtered", M, "C27.ignored", "function work list without the blacklist filter")
def _v7(repo, mod):
    fn = repo.func(M, "__analyse_included_functions")
    lam = find_node(fn, lambda n: isinstance(n, ast.Lambda))
    return replace_node(mod, lam.body, "_is_function(x)")


@variant("C27", "blacklist-cached", M, "C27.ignored", "_is_blacklisted memoised")
def _v8(repo, mod):
    fn = repo.func(M, "_is_blacklisted")
    return insert_before(mod, fn, "@functools.cache")


@variant("C27", "unresolved-owner-accepted", M, "C27.owner", "methods with unresolvable defining class count as own")
def _v9(repo, mod):
    fn = repo.func(M, "__is_method_defined_in_class")
    r = fn.body[-1]
    return replace_node(mod, r, "owner = get_class_that_defined_method(method)\n    return owner is None or class_ == owner")


@variant("C27", "twin-local-owner", M, None, "behaviour-preserving: defining class bound to a local first")
def _v10(repo, mod):
    fn = repo.func(M, "__is_method_defined_in_class")
    r = fn.body[-1]
    return replace_node(mod, r, "owner = get_class_that_defined_method(method)\n    return class_ == owner")


@variant("C27", "lambda-visibility-on-placeholder-name", M, "C27.visibility", "a lambda is only checked as <lambda> (the repaired defect)")
def _v20(repo, mod):
    fn = repo.func(M, "__analyse_function")
    s = find_stmt(fn, lambda s: isinstance(s, ast.If) and "__should_skip_by_visibility(lambda_assigned_name" in norm(s.test))
    return delete_stmt(mod, s)


@variant("C27", "mangled-pattern-without-underscores", M, "C27.visibility", "class names with an underscore are not recognised as manglers and the owner is not asked (the repaired defect)")
def _v21(repo, mod):
    fn = repo.func(M, "__is_name_mangled")
    r = [s for s in fn.body if isinstance(s, ast.Return)][-1]
    return replace_node(mod, r.value, 'name.split("__")[0].count("_") == 1')


@variant("C27", "functions-treated-as-mangled", M, "C27.visibility", "names of module-level functions are matched against the mangling pattern (the repaired defect)")
def _v22(repo, mod):
    fn = repo.func(M, "__should_skip_by_visibility")
    n = find_node(fn, lambda n: isinstance(n, ast.BoolOp) and isinstance(n.op, ast.And) and "owner is not None" in norm(n))
    return replace_node(mod, n, "__is_name_mangled(name, owner)")


@variant("C27", "owner-not-passed-for-methods", M, "C27.visibility", "__analyse_method calls the visibility test without the class")
def _v23(repo, mod):
    fn = repo.func(M, "__analyse_method")
    c = find_node(fn, lambda n: isinstance(n, ast.Call) and norm(n.func) == "__should_skip_by_visibility")
    kw = next(k for k in c.keywords if k.arg == "owner")
    return replace_node(mod, kw.value, "None")


@variant("C27", "protected-skips-dunder-free-private-only", M, "C27.visibility", "PROTECTED lets mangled names through")
def _v24(repo, mod):
    fn = repo.func(M, "__should_skip_by_visibility")
    n = find_node(fn, lambda n: isinstance(n, ast.BoolOp) and isinstance(n.op, ast.And) and "owner is not None" in norm(n))
    return replace_node(mod, n, "False")


@variant("C27", "twin-visibility-as-if-chain", M, None, "the same table written as an if chain stays silent")
def _v25(repo, mod):
    fn = repo.func(M, "__should_skip_by_visibility")
    m = find_stmt(fn, lambda s: isinstance(s, ast.Match))
    return replace_node(mod, m, "visibility = config.configuration.element_visibility\n    if visibility == ElementVisibility.ALL:\n        return False\n    if visibility == ElementVisibility.PROTECTED:\n        return __is_private(name) or (owner is not None and __is_name_mangled(name, owner))\n    return __is_protected(name) or __is_private(name)")


@variant("C27", "lambda-matched-by-the-assignment-line", "pynguin.analyses.module", "C27.lambda", "multi-line lambda assignments lose their name (seed C27-f)")
def _v50(repo, mod):
    from sa.selftest.harness import text_edit
    return text_edit(mod, "and node.value.lineno == lambda_lineno", "and node.lineno == lambda_lineno")


@variant("C27", "enum-methods-not-collected", "pynguin.analyses.module", "C27.members", "only inspect.getmembers, which finds nothing on enum classes (the repaired defect)")
def _v60(repo, mod):
    from sa.selftest.harness import text_edit
    return text_edit(mod, "        if isinstance(type_info.raw_type, enum.EnumMeta):", "        if False:")
