import ast

from sa.engine.index import norm
from sa.selftest.harness import delete_stmt, find_node, find_stmt, insert_before, replace_node, sub_in_node, variant

EX = "pynguin.testcase.export"
AG = "pynguin.assertion.assertiongenerator"


def _write(repo):
    return repo.func(EX, "TestSuiteWriter.write")


@variant("C18", "flag-overwritten-per-test", EX, "C18.pytest-flag", "needs_pytest recomputed for every test case")
def _v1(repo, mod):
    fn = _write(repo)
    s = find_stmt(fn, lambda s: isinstance(s, ast.If) and "exc_types" in norm(s.test) and "needs_pytest = True" in norm(s))
    return replace_node(mod, s, "needs_pytest = " + norm(s.test))


@variant("C18", "float-trigger-dropped", EX, "C18.pytest-flag", "float assertions no longer request `import pytest`")
def _v2(repo, mod):
    fn = _write(repo)
    s = find_stmt(fn, lambda s: isinstance(s, ast.If) and "FloatAssertion" in norm(s.test))
    return delete_stmt(mod, s)


@variant("C18", "float-trigger-first-statement-only", EX, "C18.pytest-flag", "trigger looks at the assertions of the last statement only")
def _v2b(repo, mod):
    fn = _write(repo)
    s = find_stmt(fn, lambda s: isinstance(s, ast.If) and "FloatAssertion" in norm(s.test))
    return replace_node(mod, s.test, "any(isinstance(assertion, FloatAssertion) for assertion in tc.statements()[-1].assertions)")


@variant("C18", "seed-preamble-without-random", EX, "C18.module-body", "`import random` dropped from the seeded preamble")
def _v3(repo, mod):
    fn = _write(repo)
    s = find_stmt(fn, lambda s: isinstance(s, ast.AnnAssign) and norm(s.target) == "seed_preamble")
    el = next(e for e in s.value.elts if "import random" in norm(e))
    return replace_node(mod, el, 'cast("cst.SimpleStatementLine", cst.parse_statement("import os\\n"))')


@variant("C18", "functions-before-exception-imports", EX, "C18.module-body", "exception imports placed after the test functions")
def _v4(repo, mod):
    fn = _write(repo)
    m = [n for n in ast.walk(fn) if isinstance(n, ast.Call) and norm(n.func) == "cst.Module"]
    m = max(m, key=lambda n: n.lineno)
    return replace_node(mod, m, "cst.Module(body=[*preamble, *import_stmts, *functions, *exc_import_stmts])")


@variant("C18", "sut-exceptions-not-imported", EX, "C18.exc-import", "exceptions defined by the SUT module are assumed to be imported already")
def _v5(repo, mod):
    fn = _write(repo)
    s = find_stmt(fn, lambda s: isinstance(s, ast.If) and norm(s.test) == "exc_type.__module__ != 'builtins'")
    return replace_node(mod, s.test, 'exc_type.__module__ not in {"builtins", module_name}')


@variant("C18", "failed-elif-error", AG, "C18.non-holding", "if/if -> if/elif in __remove_non_holding_assertions")
def _v6(repo, mod):
    fn = repo.func(AG, "AssertionGenerator.__remove_non_holding_assertions")
    s = find_stmt(fn, lambda s: isinstance(s, ast.If) and norm(s.test).endswith(".error"))
    return replace_node(mod, s, "el" + mod.segment(s))


@variant("C18", "twin-unused-local", EX, None, "behaviour-preserving edit")
def _v7(repo, mod):
    fn = _write(repo)
    s = find_stmt(fn, lambda s: isinstance(s, ast.If) and "FloatAssertion" in norm(s.test))
    return insert_before(mod, s, "_unused = idx")


@variant("C18", "public-names-own-only", EX, "C18.public-names", "names the module imported (an enum class) are left out of the import line")
def _v20(repo, mod):
    fn = repo.func(EX, "_public_sut_names")
    r = find_stmt(fn, lambda s: isinstance(s, ast.Return))
    return replace_node(mod, r.value, 'sorted(name for name in dir(module) if not name.startswith("_") and name != module_alias and getattr(getattr(module, name), "__module__", module.__name__) == module.__name__)')


@variant("C18", "public-names-unsorted-with-alias", EX, "C18.public-names", "the alias is imported over itself")
def _v21(repo, mod):
    fn = repo.func(EX, "_public_sut_names")
    r = find_stmt(fn, lambda s: isinstance(s, ast.Return))
    return replace_node(mod, r.value, 'sorted(name for name in dir(module) if not name.startswith("_"))')


@variant("C18", "exception-types-of-last-test-only", EX, "C18.accumulate", "the accumulator is rebound per test case")
def _v22(repo, mod):
    fn = repo.func(EX, "TestSuiteWriter.write")
    s = find_stmt(fn, lambda s: isinstance(s, ast.Expr) and norm(s.value) == "used_exc_types.update(func_used_exc_types)")
    return replace_node(mod, s, "used_exc_types = set(func_used_exc_types)")


@variant("C18", "twin-accumulate-by-union-update", EX, None, "|= instead of update() stays silent")
def _v23(repo, mod):
    fn = repo.func(EX, "TestSuiteWriter.write")
    s = find_stmt(fn, lambda s: isinstance(s, ast.Expr) and norm(s.value) == "used_exc_types.update(func_used_exc_types)")
    return replace_node(mod, s, "used_exc_types |= func_used_exc_types")
