import ast

from sa.engine.index import norm
from sa.selftest.harness import delete_stmt, find_node, find_stmt, insert_before, replace_node, sub_in_node, variant

EX = "pynguin.testcase.export"
AG = "pynguin.assertion.assertiongenerator"


def _write(repo):
    return repo.func(EX, "TestSuiteWriter.write")


@variant("C18", "flag-overwritten-per-test", EX, "C18.pytest-flag", "needs_pytest recomputed for every test case")
def _v1(repo, mod):
    fn = _write(repo)
    s = find_stmt(fn, lambda s: isinstance(s, ast.If) and "exc_types" in norm(s.test) and "needs_pytest = True" in norm(s))
    return replace_node(mod, s, "needs_pytest = " + norm(s.test))


@variant("C18", "float-trigger-dropped", EX, "C18.pytest-flag", "float assertions no longer request `import pytest`")
def _v2(repo, mod):
    fn = _write(repo)
    s = find_stmt(fn, lambda s: isinstance(s, ast.If) and "FloatAssertion" in norm(s.test))
    return delete_stmt(mod, s)


@variant("C18", "float-trigger-first-statement-only", EX, "C18.pytest-flag", "trigger looks at the assertions of the last statement only")
def _v2b(repo, mod):
    fn = _write(repo)
    s = find_stmt(fn, lambda s: isinstance(s, ast.If) and "FloatAssertion" in norm(s.test))
    return replace_node(mod, s.test, "any(isinstance(assertion, FloatAssertion) for assertion in tc.statements()[-1].assertions)")


@variant("C18", "seed-preamble-without-random", EX, "C18.module-body", "`import random` dropped from the seeded preamble")
def _v3(repo, mod):
    fn = _write(repo)
    s = find_stmt(fn, lambda s: isinstance(s, ast.AnnAssign) and norm(s.target) == "seed_preamble")
    el = next(e for e in s.value.elts if "import random" in norm(e))
    return replace_node(mod, el, 'cast("cst.SimpleStatementLine", cst.parse_statement("import os\\n"))')


@variant("C18", "functions-before-exception-imports", EX, "C18.module-body", "exception imports placed after the test functions")
def _v4(repo, mod):
    fn = _write(repo)
    m = [n for n in ast.walk(fn) if isinstance(n, ast.Call) and norm(n.func) == "cst.Module"]
    m = max(m, key=lambda n: n.lineno)
    return replace_node(mod, m, "cst.Module(body=[*preamble, *import_stmts, *functions, *exc_import_stmts])")


@variant("C18", "sut-exceptions-not-imported", EX, "C18.exc-import", "exceptions defined by the SUT module are assumed to be imported already")
def _v5(repo, mod):
    fn = _write(repo)
    s = find_stmt(fn, lambda s: isinstance(s, ast.If) and norm(s.test) == "exc_type.__module__ != 'builtins'")
    return replace_node(mod, s.test, 'exc_type.__module__ not in {"builtins", module_name}')


@variant("C18", "failed-elif-error", AG, "C18.non-holding", "if/if -> if/elif in __remove_non_holding_assertions")
def _v6(repo, mod):
    fn = repo.func(AG, "AssertionGenerator.__remove_non_holding_assertions")
    s = find_stmt(fn, lambda s: isinstance(s, ast.If) and norm(s.test).endswith(".error"))
    return replace_node(mod, s, "el" + mod.segment(s))


@variant("C18", "twin-unused-local", EX, None, "behaviour-preserving edit")
def _v7(repo, mod):
    fn = _write(repo)
    s = find_stmt(fn, lambda s: isinstance(s, ast.If) and "FloatAssertion" in norm(s.test))
    return insert_before(mod, s, "_unused = idx")


@variant("C18", "public-names-from-dunder-all", EX, "C18.public-names", "names taken from a declared list that need not exist on the module")
def _v20(repo, mod):
    fn = repo.func(EX, "_public_sut_names")
    r = find_stmt(fn, lambda s: isinstance(s, ast.Return))
    return replace_node(mod, r.value, 'sorted([name for name in dir(module) if not name.startswith("_") and name != module_alias] + ["main"])')


@variant("C18", "twin-public-names-own-only", EX, None, "leaving out names the module merely imported stays silent (the enum / exception imports bind what rendered code needs)")
def _v20b(repo, mod):
    fn = repo.func(EX, "_public_sut_names")
    r = find_stmt(fn, lambda s: isinstance(s, ast.Return))
    return replace_node(mod, r.value, 'sorted(name for name in dir(module) if not name.startswith("_") and name != module_alias and getattr(getattr(module, name), "__module__", module.__name__) == module.__name__)')


@variant("C18", "public-names-unsorted-with-alias", EX, "C18.public-names", "the alias is imported over itself")
def _v21(repo, mod):
    fn = repo.func(EX, "_public_sut_names")
    r = find_stmt(fn, lambda s: isinstance(s, ast.Return))
    return replace_node(mod, r.value, 'sorted(name for name in dir(module) if not name.startswith("_"))')


@variant("C18", "exception-types-of-last-test-only", EX, "C18.accumulate", "the accumulator is rebound per test case")
def _v22(repo, mod):
    fn = repo.func(EX, "TestSuiteWriter.write")
    s = find_stmt(fn, lambda s: isinstance(s, ast.Expr) and norm(s.value) == "used_exc_types.update(func_used_exc_types)")
    return replace_node(mod, s, "used_exc_types = set(func_used_exc_types)")


@variant("C18", "twin-accumulate-by-union-update", EX, None, "|= instead of update() stays silent")
def _v23(repo, mod):
    fn = repo.func(EX, "TestSuiteWriter.write")
    s = find_stmt(fn, lambda s: isinstance(s, ast.Expr) and norm(s.value) == "used_exc_types.update(func_used_exc_types)")
    return replace_node(mod, s, "used_exc_types |= func_used_exc_types")


@variant("C18", "enum-classes-of-dict-keys-not-collected", EX, "C18.enum-import", "the collector looks at dict values only")
def _v30(repo, mod):
    fn = repo.func(EX, "_enum_types_of")
    n = find_node(fn, lambda n: isinstance(n, ast.Call) and norm(n) == "value.items()")
    return replace_node(mod, n, "[(None, item) for item in value.values()]")


@variant("C18", "enum-classes-only-of-bare-members", EX, "C18.enum-import", "members nested in containers are not collected")
def _v31(repo, mod):
    fn = repo.func(EX, "_enum_types_of")
    s = find_stmt(fn, lambda s: isinstance(s, ast.If) and "list" in norm(s.test))
    return replace_node(mod, s.test, "False")


@variant("C18", "enum-classes-not-fed-to-imports", EX, "C18.enum-import", "collected, but the import loop was dropped")
def _v32(repo, mod):
    fn = repo.func(EX, "TestSuiteWriter.write")
    lp = find_stmt(fn, lambda s: isinstance(s, ast.For) and norm(s.iter) == "used_enum_types")
    return replace_node(mod, lp.iter, "()")


@variant("C18", "enum-classes-of-first-assertion-only", EX, "C18.enum-import", "only statements with a bound variable are scanned")
def _v33(repo, mod):
    fn = repo.func(EX, "TestSuiteWriter.write")
    c = find_node(fn, lambda n: isinstance(n, ast.Call) and norm(n.func) == "_enum_types_of")
    st = c
    from sa.engine.index import parent
    while not isinstance(st, ast.Expr):
        st = parent(st)
    from sa.selftest.harness import node_text
    return replace_node(mod, st, "if stmt.bound_variable is not None:\n                        " + node_text(mod, st).replace("\n", "\n    "))


@variant("C18", "private-enum-classes-skipped", EX, "C18.enum-import", "names starting with an underscore are not imported")
def _v34(repo, mod):
    fn = repo.func(EX, "TestSuiteWriter.write")
    lp = find_stmt(fn, lambda s: isinstance(s, ast.For) and norm(s.iter) == "used_enum_types")
    cond = find_node(lp, lambda n: isinstance(n, ast.BoolOp))
    return replace_node(mod, cond.values[0], 'isinstance(bound, type) and not enum_type.__name__.startswith("_")')


@variant("C18", "twin-collector-renamed", EX, None, "renaming the collector and its accumulator stays silent")
def _v35(repo, mod):
    return mod.source.replace("_enum_types_of", "_enum_classes_in").replace("used_enum_types", "enum_classes")


@variant("C18", "exception-named-by-its-bare-name", EX, "C18.exc-import", "nested exception classes rendered as `Empty` (the repaired defect)")
def _v60(repo, mod):
    from sa.selftest.harness import text_edit
    src = text_edit(mod, "cst.Arg(value=cst.parse_expression(nameable_type.__qualname__))", "cst.Arg(value=cst.Name(nameable_type.__name__))")
    return src.replace('exc_type.__qualname__.split(".")[0]', "exc_type.__name__", 1)


@variant("C18", "function-local-exception-named", EX, "C18.exc-import", "a class defined inside a function is named in pytest.raises (the repaired defect)")
def _v61(repo, mod):
    from sa.selftest.harness import text_edit
    return text_edit(mod, "nameable_type = _nameable_exception_type(exc_type)", "nameable_type = exc_type")


@variant("C18", "outermost-class-not-imported", EX, "C18.exc-import", "the reference is Stack.Empty but `Empty` is imported")
def _v62(repo, mod):
    from sa.selftest.harness import text_edit
    return text_edit(mod, 'exc_type.__qualname__.split(".")[0]', 'exc_type.__qualname__.split(".")[-1]')


@variant("C18", "twin-outermost-name-by-partition", EX, None, "first component taken with partition")
def _v63(repo, mod):
    from sa.selftest.harness import text_edit
    return text_edit(mod, 'exc_type.__qualname__.split(".")[0]', 'exc_type.__qualname__.partition(".")[0]')
