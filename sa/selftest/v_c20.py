import ast

from sa.engine.index import norm
from sa.selftest.harness import delete_stmt, find_node, find_stmt, insert_before, replace_node, replace_nodes, sub_in_node, variant

A2A = "pynguin.assertion.assertion_to_ast"


@variant("C20", "negative-zero-token", A2A, "C20.float", "sign test by `< 0` (the repaired defect): Float('-0.0')")
def _v1(repo, mod):
    fn = repo.func(A2A, "_make_float_literal")
    s = find_stmt(fn, lambda s: isinstance(s, ast.If) and "copysign" in norm(s.test))
    return replace_node(mod, s.test, "value < 0")


@variant("C20", "complex-as-string", A2A, "C20.value", "complex rendered as SimpleString(repr(value)) (the repaired defect)")
def _v2(repo, mod):
    fn = repo.func(A2A, "_value_to_cst")
    s = find_stmt(fn, lambda s: isinstance(s, ast.If) and norm(s.test) == "isinstance(value, complex)")
    return replace_node(mod, s.body[-1], "return cst.SimpleString(repr(value))")


@variant("C20", "enum-arm-after-str", A2A, "C20", "enum members of str-based enums reach the str arm")
def _v3(repo, mod):
    fn = repo.func(A2A, "_value_to_cst")
    e = find_stmt(fn, lambda s: isinstance(s, ast.If) and "is_enum" in norm(s.test))
    c = find_stmt(fn, lambda s: isinstance(s, ast.If) and norm(s.test) == "isinstance(value, complex)")
    return replace_nodes(mod, [(e, "pass"), (c, mod.segment(e) + "\n    " + mod.segment(c))])


@variant("C20", "negative-int-token", A2A, "C20.value", "negative ints rendered as Integer('-7')")
def _v4(repo, mod):
    fn = repo.func(A2A, "_value_to_cst")
    s = find_stmt(fn, lambda s: isinstance(s, ast.If) and norm(s.test) == "value < 0")
    return replace_node(mod, s.test, "False")


@variant("C20", "single-quoted-bytes-as-str", A2A, "C20.value", "bytes rendered through str()")
def _v5(repo, mod):
    fn = repo.func(A2A, "_value_to_cst")
    s = find_stmt(fn, lambda s: isinstance(s, ast.If) and norm(s.test) == "isinstance(value, bytes)")
    return replace_node(mod, s.body[-1], "return cst.SimpleString(repr(str(value)))")


@variant("C20", "infinity-literal", A2A, "C20.float", "inf rendered as the bare token inf")
def _v6(repo, mod):
    fn = repo.func(A2A, "_make_float_literal")
    s = find_stmt(fn, lambda s: isinstance(s, ast.If) and norm(s.test) == "math.isinf(value)")
    return replace_node(mod, s.test, "False")


@variant("C20", "twin-unused-local", A2A, None, "behaviour-preserving edit")
def _v7(repo, mod):
    fn = repo.func(A2A, "_make_float_literal")
    return insert_before(mod, fn.body[0], "_unused = value")
