import ast

from sa.engine.index import norm
from sa.selftest.harness import delete_stmt, find_node, find_stmt, insert_before, replace_node, replace_nodes, sub_in_node, variant

A2A = "pynguin.assertion.assertion_to_ast"


@variant("C20", "negative-zero-token", A2A, "C20.float", "sign test by `< 0` (the repaired defect): Float('-0.0')")
def _v1(repo, mod):
    fn = repo.func(A2A, "_make_float_literal")
    s = find_stmt(fn, lambda s: isinstance(s, ast.If) and "copysign" in norm(s.test))
    return replace_node(mod, s.test, "value < 0")


@variant("C20", "complex-as-string", A2A, "C20.value", "complex rendered as SimpleString(repr(value)) (the repaired defect)")
def _v2(repo, mod):
    fn = repo.func(A2A, "_value_to_cst")
    s = find_stmt(fn, lambda s: isinstance(s, ast.If) and norm(s.test) == "isinstance(value, complex)")
    return replace_node(mod, s.body[-1], "return cst.SimpleString(repr(value))")


@variant("C20", "enum-arm-after-str", A2A, "C20", "enum members of str-based enums reach the str arm")
def _v3(repo, mod):
    fn = repo.func(A2A, "_value_to_cst")
    e = find_stmt(fn, lambda s: isinstance(s, ast.If) and "is_enum" in norm(s.test))
    c = find_stmt(fn, lambda s: isinstance(s, ast.If) and norm(s.test) == "isinstance(value, complex)")
    return replace_nodes(mod, [(e, "pass"), (c, mod.segment(e) + "\n    " + mod.segment(c))])


@variant("C20", "negative-int-token", A2A, "C20.value", "negative ints rendered as Integer('-7')")
def _v4(repo, mod):
    fn = repo.func(A2A, "_value_to_cst")
    s = find_stmt(fn, lambda s: isinstance(s, ast.If) and norm(s.test) == "value < 0")
    return replace_node(mod, s.test, "False")


@variant("C20", "single-quoted-bytes-as-str", A2A, "C20.value", "bytes rendered through str()")
def _v5(repo, mod):
    fn = repo.func(A2A, "_value_to_cst")
    s = find_stmt(fn, lambda s: isinstance(s, ast.If) and norm(s.test) == "isinstance(value, bytes)")
    return replace_node(mod, s.body[-1], "return cst.SimpleString(repr(str(value)))")


@variant("C20", "infinity-literal", A2A, "C20.float", "inf rendered as the bare token inf")
def _v6(repo, mod):
    fn = repo.func(A2A, "_make_float_literal")
    s = find_stmt(fn, lambda s: isinstance(s, ast.If) and norm(s.test) == "math.isinf(value)")
    return replace_node(mod, s.test, "False")


@variant("C20", "twin-unused-local", A2A, None, "behaviour-preserving edit")
def _v7(repo, mod):
    fn = repo.func(A2A, "_make_float_literal")
    return insert_before(mod, fn.body[0], "_unused = value")


TU = "pynguin.utils.type_utils"
ATO = "pynguin.assertion.assertiontraceobserver"


@variant("C20", "dict-keys-not-checked", TU, "C20.admit", "is_assertable looks at the values of a dict only")
def _v20(repo, mod):
    fn = repo.func(TU, "is_assertable")
    n = find_node(fn, lambda n: isinstance(n, ast.BoolOp) and "is_assertable(key" in norm(n))
    return replace_node(mod, n, "is_assertable(value, recursion_depth + 1)")


@variant("C20", "sequence-elements-not-checked", TU, "C20.admit", "a list / tuple is admitted whatever it holds")
def _v21(repo, mod):
    fn = repo.func(TU, "is_assertable")
    r = find_stmt(fn, lambda s: isinstance(s, ast.Return) and "for elem in obj" in norm(s))
    return replace_node(mod, r.value, "True")


@variant("C20", "expected-value-aliases-live-object", ATO, "C20.detached", "the assertion keeps the observed object itself")
def _v22(repo, mod):
    c = find_node(repo.module(ATO).tree, lambda n: isinstance(n, ast.Call) and norm(n.func).endswith("ObjectAssertion") and len(n.args) == 2)
    return replace_node(mod, c.args[1], "value")


@variant("C20", "expected-value-shallow-copy", ATO, "C20.detached", "a shallow copy shares the nested containers")
def _v23(repo, mod):
    c = find_node(repo.module(ATO).tree, lambda n: isinstance(n, ast.Call) and norm(n.func).endswith("ObjectAssertion") and len(n.args) == 2)
    return replace_node(mod, c.args[1], "copy.copy(value)")


@variant("C20", "twin-deep-copy-in-a-local", ATO, None, "the deep copy held in a local first stays silent")
def _v24(repo, mod):
    c = find_node(repo.module(ATO).tree, lambda n: isinstance(n, ast.Call) and norm(n.func).endswith("ObjectAssertion") and len(n.args) == 2)
    st = c
    from sa.engine.index import parent
    while not isinstance(st, ast.stmt):
        st = parent(st)
    return replace_nodes(mod, [(c.args[1], "expected")]).replace(norm(st)[:0], "", 0) if False else insert_before(mod, st, "expected = copy.deepcopy(value)").replace("ass.ObjectAssertion(source, copy.deepcopy(value))", "ass.ObjectAssertion(source, expected)")


A2A = "pynguin.assertion.assertion_to_ast"


@variant("C20", "flag-members-rendered-by-name-only", A2A, "C20.value", "composite / unnamed Flag members rendered through their name (the repaired defect)")
def _v40(repo, mod):
    fn = repo.func(A2A, "_value_to_cst")
    s = find_stmt(fn, lambda s: isinstance(s, ast.If) and "isidentifier" in norm(s.test))
    return delete_stmt(mod, s)


@variant("C20", "local-classes-named-in-isinstance", ATO, "C20.nameable", "classes defined inside a function count as importable (the repaired defect)")
def _v41(repo, mod):
    fn = repo.func(ATO, "RemoteAssertionTraceObserver._is_type_importable")
    s = find_stmt(fn, lambda s: isinstance(s, ast.If) and "<locals>" in norm(s.test))
    return delete_stmt(mod, s)


@variant("C20", "odd-field-names-followed", ATO, "C20.nameable", "fields whose name is no identifier are asserted on (the repaired defect)")
def _v42(repo, mod):
    fn = repo.func(ATO, "RemoteAssertionTraceObserver._should_ignore")
    r = find_stmt(fn, lambda s: isinstance(s, ast.Return))
    return replace_node(mod, r.value, 'field.startswith("_") or field.endswith("__") or callable(attr_value) or isinstance(attr_value, ModuleType | staticmethod | classmethod | property)')
