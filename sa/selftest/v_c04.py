import ast

from sa.engine.index import norm
from sa.selftest.harness import delete_stmt, find_node, find_stmt, insert_before, replace_node, replace_nodes, sub_in_node, variant

TR = "pynguin.instrumentation.tracer"
TU = "pynguin.utils.type_utils"
ECP = "ExecutionTracer.executed_compare_predicate"


@variant("C04", "lt-becomes-le", TR, "C04.helper-op", "< -> <= in _lt's zero test")
def _v1(repo, mod):
    fn = repo.func(TR, "_lt")
    i = find_stmt(fn, lambda s: isinstance(s, ast.If) and norm(s.test) == "val1 < val2")
    return replace_node(mod, i.test, "val1 <= val2")


@variant("C04", "ge-pair-swapped", TR, "C04.complement", "GE arm uses the LT pair")
def _v2(repo, mod):
    fn = repo.func(TR, ECP)
    mt = find_stmt(fn, lambda s: isinstance(s, ast.Match))
    arm = next(c for c in mt.cases if norm(c.pattern).endswith(".GE"))
    return replace_node(mod, arm.body[0].value, "(_lt(value1, value2), _le(value2, value1))")


@variant("C04", "metrics-arguments-swapped", TR, "C04.args", "true and false distance swapped at one _update_metrics call")
def _v3(repo, mod):
    fn = repo.func(TR, "ExecutionTracer.executed_bool_predicate")
    c = find_node(fn, lambda n: isinstance(n, ast.Call) and norm(n.func) == "self._update_metrics")
    return replace_node(mod, c, "self._update_metrics(distance_true, distance_false, predicate)")


@variant("C04", "nan-distance-unfiltered", TR, "C04.numeric", "NaN is no longer mapped to a positive distance (part of the repaired defect)")
def _v4(repo, mod):
    fn = repo.func(TR, "_positive_distance")
    s = find_stmt(fn, lambda s: isinstance(s, ast.If) and norm(s.test) == "distance != distance")
    return delete_stmt(mod, s)


@variant("C04", "unordered-operands-unhandled", TR, "C04.numeric", "no normalisation for operands that are neither < nor >= (the repaired defect)")
def _v5(repo, mod):
    fn = repo.func(TR, ECP)
    s = find_stmt(fn, lambda s: isinstance(s, ast.If) and norm(s.test) == "distance_true != 0.0 and distance_false != 0.0")
    return replace_node(mod, s.test, "False")


@variant("C04", "overflow-propagates", TR, "C04.numeric", "OverflowError of float(huge int) no longer contained")
def _v6(repo, mod):
    fn = repo.func(TR, "_positive_distance")
    h = find_node(fn, lambda n: isinstance(n, ast.ExceptHandler))
    return replace_node(mod, h.type, "(TypeError, ValueError)")


@variant("C04", "strict-utf8-decode", TR, "C04.numeric", "bytes compared through strict UTF-8 decoding")
def _v7(repo, mod):
    fn = repo.func(TR, "_eq")
    s = find_stmt(fn, lambda s: isinstance(s, ast.Return) and "decode" in norm(s))
    return replace_node(mod, s, "return string_distance(val1.decode(), val2.decode())")


@variant("C04", "tuple-except-clause-never-matches", TU, "C04.numeric", "given_exception_matches normalises the clause like the exception")
def _v8(repo, mod):
    fn = repo.func(TU, "given_exception_matches")
    r = find_stmt(fn, lambda s: isinstance(s, ast.If) and "tuple" in norm(s.test))
    return insert_before(mod, r, "if not isclass(exc):\n    exc = type(exc)")


@variant("C04", "bool-predicate-both-zero", TR, "C04.one-zero", "false distance of an empty-but-truthy value may be 0")
def _v9(repo, mod):
    fn = repo.func(TR, "ExecutionTracer.executed_bool_predicate")
    s = find_stmt(fn, lambda s: isinstance(s, ast.Assign) and norm(s) == "distance_false = inf")
    return replace_node(mod, s, "distance_false = 0.0 * 1")


@variant("C04", "assertion-dropped", TR, "C04.assert", "exactly-one-zero assertion removed")
def _v10(repo, mod):
    fn = repo.func(TR, "ExecutionTracer._update_metrics")
    s = find_stmt(fn, lambda s: isinstance(s, ast.Assert) and "^" in norm(s.test))
    return delete_stmt(mod, s)


@variant("C04", "twin-rename-local", TR, None, "behaviour-preserving: distance bound to a differently named local")
def _v11(repo, mod):
    fn = repo.func(TR, "_positive_distance")
    return insert_before(mod, fn.body[-1], "_unused = distance")


@variant("C04", "size-of-truthy-objects", TR, "C04.numeric", "len() used as false distance for objects that define __bool__ (seed C04-c)")
def _vb1(repo, mod):
    fn = repo.func(TR, "ExecutionTracer.executed_bool_predicate")
    t = find_node(fn, lambda n: isinstance(n, ast.BoolOp) and "Sized" in norm(n))
    return replace_node(mod, t, "isinstance(value, Sized)")


@variant("C04", "ge-evaluated-through-reflection", "pynguin.instrumentation.tracer", "C04.numeric", "a >= b evaluated as b <= a (the repaired defect)")
def _v50(repo, mod):
    from sa.selftest.harness import text_edit
    return text_edit(mod, "_ge(value1, value2),", "_le(value2, value1),")


@variant("C04", "string-distance-zero-for-unequal-subclass", "pynguin.instrumentation.tracer", "C04.numeric", "str subclass with its own __eq__ (the repaired defect)")
def _v51(repo, mod):
    from sa.selftest.harness import text_edit
    return text_edit(mod, "return _positive_distance(lambda: string_distance(val1, val2))", "return string_distance(val1, val2)")


@variant("C04", "membership-fallback-unguarded", "pynguin.instrumentation.tracer", "C04.numeric", "__contains__ disagreeing with iteration / raising __iter__ (the repaired defect)")
def _v52(repo, mod):
    fn = repo.func("pynguin.instrumentation.tracer", "_in")
    t = find_stmt(fn, lambda s: isinstance(s, ast.Try) and "min(" in norm(s))
    return replace_node(mod, t, "return min([_eq(val1, v) for v in val2] + [inf])")


@variant("C04", "exception-match-by-issubclass", "pynguin.utils.type_utils", "C04.numeric", "metaclass hook / ABC registration honoured (the repaired defect)")
def _v53(repo, mod):
    fn = repo.func("pynguin.utils.type_utils", "given_exception_matches")
    return replace_node(mod, fn.body[-1], "return issubclass(err, exc)")
