import ast

from sa.engine.index import norm
from sa.selftest.harness import delete_stmt, find_node, find_stmt, insert_before, replace_node, replace_nodes, sub_in_node, variant

DES = "pynguin.large_language_model.parsing.deserializer"
SEED = "pynguin.analyses.seeding"
A2A = "pynguin.assertion.assertion_to_ast"


@variant("C24", "qualname-truncated", DES, "C24.roundtrip", "type references keep only the last component")
def _v1(repo, mod):
    fn = repo.func(DES, "_resolve_type_ref")
    c = find_node(fn, lambda n: isinstance(n, ast.Call) and norm(n.func) == "'.'.join")
    return replace_node(mod, c, "chain[-1]")


@variant("C24", "decorated-tests-skipped", SEED, "C24.functions", "seed parser skips decorated functions")
def _v2(repo, mod):
    fn = repo.func(SEED, "parse_seed_module")
    s = find_stmt(fn, lambda s: isinstance(s, ast.If) and "startswith" in norm(s.test))
    return insert_before(mod, s, "if node.decorators:\n    continue")


@variant("C24", "prefix-narrowed", SEED, "C24.functions", "parser only accepts seed_test_ functions")
def _v3(repo, mod):
    fn = repo.func(SEED, "parse_seed_module")
    s = find_stmt(fn, lambda s: isinstance(s, ast.If) and "startswith" in norm(s.test))
    return replace_node(mod, s.test, 'not node.name.value.startswith("seed_test_")')


@variant("C24", "length-rendered-as-comparison-chain", A2A, "C24.roundtrip", "exporter renders length assertions in a form the parser does not lift")
def _v4(repo, mod):
    fn = repo.func(A2A, "_collection_length_assertion_to_cst")
    c = find_node(fn, lambda n: isinstance(n, ast.Call) and norm(n.func) == "cst.Equal")
    return replace_node(mod, c, "cst.GreaterThanEqual()")


@variant("C24", "is-none-not-lifted", DES, "C24.roundtrip", "parser only lifts == comparisons")
def _v5(repo, mod):
    fn = repo.func(DES, "_parse_equality_literal_assertion")
    c = find_node(fn, lambda n: isinstance(n, ast.BinOp) and norm(n) == "cst.Equal | cst.Is")
    return replace_node(mod, c, "cst.Equal")


@variant("C24", "twin-unused-local", DES, None, "behaviour-preserving edit")
def _v6(repo, mod):
    fn = repo.func(DES, "_resolve_type_ref")
    return insert_before(mod, fn.body[-1], "_unused = node")


@variant("C24", "normalizer-rewrites-keywords", DES, "C24.name-positions", "the SUT-reference normalizer without its Arg hooks (the repaired defect)")
def _v30(repo, mod):
    c = repo.cls(DES, "_SutReferenceNormalizer")
    fns = [f for f in c.body if isinstance(f, ast.FunctionDef) and f.name in ("visit_Arg", "leave_Arg")]
    return replace_nodes(mod, [(f, "def _unused_%s(self):\n        return None" % f.name) for f in fns])


@variant("C24", "renamer-renames-attributes", DES, "C24.name-positions", "_LocalRenamer without the attribute exemption (the repaired defect)")
def _v31(repo, mod):
    c = repo.cls(DES, "_LocalRenamer")
    f = next(f for f in c.body if isinstance(f, ast.FunctionDef) and f.name == "leave_Attribute")
    return replace_node(mod, f, "def _unused_attribute(self):\n        return None")


@variant("C24", "keep-tally-forgets-compound-blocks", SEED, "C24.functions", "parsed functions kept by a tally that misses ADMITTED_COMPOUND")
def _v40(repo, mod):
    fn = repo.func(SEED, "parse_seed_module")
    keep = find_stmt(fn, lambda s: isinstance(s, ast.If) and "size()" in norm(s.test))
    return replace_node(mod, keep.test, "sum(deserializer.deserialize_function(node).counts[d] for d in (Disposition.ADMITTED, Disposition.ADMITTED_IMPORT, Disposition.ADMITTED_UNRESOLVED_CALL)) > 0").replace("    CstStatementDeserializer,\n", "    CstStatementDeserializer,\n    Disposition,\n", 1)


@variant("C24", "bare-expressions-other-than-calls-refused", DES, "C24.statements", "the parser drops expression statements that are not calls")
def _v41(repo, mod):
    fn = repo.func(DES, "CstStatementDeserializer._admit_small_statement")
    arm = find_stmt(fn, lambda s: isinstance(s, ast.If) and norm(s.test) == "isinstance(small, cst.Expr)")
    return insert_before(mod, arm.body[0], "if not isinstance(small.value, cst.Call):\n    return None")


@variant("C24", "seed-file-by-first-substring-match", "pynguin.analyses.seeding", "C24.seed-file", "first file that carries the module name wins (the repaired defect)")
def _v50(repo, mod):
    from sa.selftest.harness import text_edit
    return text_edit(mod, "        result.sort(key=lambda path: path.name != f\"test_{module_name}.py\")\n", "")


@variant("C24", "string-literal-read-raw", "pynguin.large_language_model.parsing.deserializer", "C24.escape", "raw_value fast path (seed C24-e)")
def _v51(repo, mod):
    fn = repo.func("pynguin.large_language_model.parsing.deserializer", "_try_literal")
    return insert_before(mod, fn.body[-1], "if isinstance(node, cst.SimpleString) and not node.prefix:\n        return node.raw_value")
