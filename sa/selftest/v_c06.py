import ast

from sa.engine.index import norm
from sa.selftest.harness import delete_stmt, find_node, find_stmt, insert_before, replace_node, replace_nodes, sub_in_node, variant

CF = "pynguin.instrumentation.controlflow"


@variant("C06", "no-self-dependence", CF, "C06.ferrante", "loop headers no longer depend on themselves")
def _v1(repo, mod):
    fn = repo.func(CF, "ControlDependenceGraph.compute")
    i = find_node(fn, lambda n: isinstance(n, ast.If) and norm(n.test) == "least_common_ancestor is source")
    return replace_node(mod, i.test, "False")


@variant("C06", "augmented-entry-without-exit-edge", CF, "C06.ferrante", "augmented entry is not connected to EXIT: blocks that depend on no branch lose their root")
def _v2(repo, mod):
    fn = repo.func(CF, "ControlDependenceGraph._create_augmented_graph")
    s = find_stmt(fn, lambda s: isinstance(s, ast.Expr) and norm(s.value).endswith("(ArtificialNode.AUGMENTED_ENTRY, ArtificialNode.EXIT)"))
    return delete_stmt(mod, s)


@variant("C06", "walk-stops-one-short", CF, "C06.ferrante", "the walk up the post-dominator tree skips the target itself")
def _v3(repo, mod):
    fn = repo.func(CF, "ControlDependenceGraph.compute")
    s = find_stmt(fn, lambda s: isinstance(s, ast.Assign) and norm(s.targets[0]) == "current" and norm(s.value) == "target")
    return replace_node(mod, s, "current = target\n            if current != least_common_ancestor:\n                current = next(iter(post_dominator_tree.get_predecessors(current)))")


@variant("C06", "edge-filter-inverted-direction", CF, "C06.ferrante", "edges are selected when the SOURCE is not an ancestor of the target")
def _v4(repo, mod):
    fn = repo.func(CF, "ControlDependenceGraph.compute")
    c = find_node(fn, lambda n: isinstance(n, ast.Compare) and norm(n) == "target not in post_dominator_tree.get_ancestors(source)")
    return replace_node(mod, c, "source not in post_dominator_tree.get_ancestors(target)")


@variant("C06", "labels-dropped", CF, "C06.ferrante", "control dependences lose the branch value")
def _v5(repo, mod):
    fn = repo.func(CF, "ControlDependenceGraph.compute")
    c = find_node(fn, lambda n: isinstance(n, ast.Call) and norm(n) == "cdg.add_edge(source, current, **attr)")
    return replace_node(mod, c, "cdg.add_edge(source, current)")


@variant("C06", "infinite-loops-not-wired-to-exit", CF, "C06.shape", "loops without exit are not connected to EXIT")
def _v6(repo, mod):
    fn = repo.func(CF, "CFG._insert_dummy_nodes")
    s = find_stmt(fn, lambda s: isinstance(s, ast.Expr) and "simple_cycles" in norm(s.value))
    return delete_stmt(mod, s)


@variant("C06", "dead-code-single-pass", CF, "C06.shape", "dead blocks are removed in one pass only")
def _v7(repo, mod):
    fn = repo.func(CF, "filter_dead_code_nodes")
    s = find_node(fn, lambda n: isinstance(n, ast.Assign) and norm(n.targets[0]) == "has_changed" and norm(n.value) == "True" and n.col_offset > 8)
    return replace_node(mod, s, "has_changed = False")


@variant("C06", "root-follows-labelled-edges", CF, "C06.root", "root dependence looks through labelled edges")
def _v8(repo, mod):
    fn = repo.func(CF, "ControlDependenceGraph._is_control_dependent_on_root")
    i = find_node(fn, lambda n: isinstance(n, ast.If) and "EDGE_DATA_BRANCH_VALUE" in norm(n.test))
    return replace_node(mod, i.test, "False")


@variant("C06", "twin-augmented-graph-edge-order", CF, None, "behaviour-preserving: the two augmented edges added in the other order")
def _v9(repo, mod):
    fn = repo.func(CF, "ControlDependenceGraph._create_augmented_graph")
    ss = [s for s in fn.body if isinstance(s, ast.Expr) and norm(s.value).startswith("augmented_graph.add_edge")]
    return replace_nodes(mod, [(ss[0], mod.segment(ss[1])), (ss[1], mod.segment(ss[0]))])
