"""Source index of /repo/src/pynguin: parsed modules, classes, functions, static MRO.

Nothing from pynguin is imported or executed; everything is derived from the
syntax trees of the files on disk at the moment the check starts.
"""

from __future__ import annotations

import ast
import hashlib
import os
from dataclasses import dataclass, field
from pathlib import Path


class AnalysisError(Exception):
    """The analysis itself is broken (anchor vanished, floor not met, parse error)."""


from sa.engine import alpha  # noqa: E402
DEFAULT_REPO = os.environ.get("SA_REPO", "/repo")


def norm(node: ast.AST | None) -> str:
    """Normalised source text of a node (used in finding keys; position free)."""
    if node is None:
        return ""
    try:
        text = ast.unparse(node)
    except Exception:  # noqa: BLE001
        text = ast.dump(node)
    return " ".join(text.split())


def head(node: ast.AST, limit: int = 160) -> str:
    """First line of a (possibly compound) statement, normalised."""
    if isinstance(node, (ast.If, ast.While)):
        kw = "if" if isinstance(node, ast.If) else "while"
        return f"{kw} {norm(node.test)}:"[:limit]
    if isinstance(node, (ast.For, ast.AsyncFor)):
        return f"for {norm(node.target)} in {norm(node.iter)}:"[:limit]
    if isinstance(node, (ast.With, ast.AsyncWith)):
        return ("with " + ", ".join(norm(i) for i in node.items) + ":")[:limit]
    if isinstance(node, ast.Try):
        return "try:"
    if isinstance(node, ast.ExceptHandler):
        return f"except {norm(node.type)}:"[:limit]
    if isinstance(node, (ast.FunctionDef, ast.AsyncFunctionDef)):
        return f"def {node.name}(...)"
    if isinstance(node, ast.ClassDef):
        return f"class {node.name}"
    if isinstance(node, ast.Match):
        return f"match {norm(node.subject)}:"[:limit]
    if isinstance(node, ast.match_case):
        return f"case {norm(node.pattern)}:"[:limit]
    return norm(node)[:limit]


@dataclass
class Module:
    name: str
    path: Path
    relpath: str
    source: str
    tree: ast.Module
    digest: str
    imports: dict[str, str] = field(default_factory=dict)  # local alias -> dotted target
    functions: dict[str, ast.AST] = field(default_factory=dict)  # qualname -> FunctionDef
    classes: dict[str, ast.ClassDef] = field(default_factory=dict)  # qualname -> ClassDef
    assigns: dict[str, ast.AST] = field(default_factory=dict)  # module-level NAME -> value expr

    def segment(self, node: ast.AST) -> str:
        return ast.get_source_segment(self.source, node) or ""


class Repo:
    """All modules under <root>/src/pynguin."""

    def __init__(self, root: str | None = None, overlay: dict[str, str] | None = None):
        self.root = Path(root or DEFAULT_REPO)
        self.overlay = overlay or {}  # module name -> replacement source (self-test variants)
        self.src = self.root / "src"
        self.pkg = self.src / "pynguin"
        if not self.pkg.is_dir():
            raise AnalysisError(f"package directory missing: {self.pkg}")
        self.modules: dict[str, Module] = {}
        self._load()
        self._mro_cache: dict[tuple[str, str], list[tuple[str, str]]] = {}

    # ------------------------------------------------------------------ loading
    def _load(self) -> None:
        tree_hash = hashlib.sha256()
        for path in sorted(self.pkg.rglob("*.py")):
            rel = path.relative_to(self.src)
            parts = list(rel.with_suffix("").parts)
            if parts[-1] == "__init__":
                parts = parts[:-1]
            name = ".".join(parts)
            data = path.read_bytes()
            if name in self.overlay:
                data = self.overlay[name].encode("utf-8")
            digest = hashlib.sha256(data).hexdigest()
            tree_hash.update(name.encode() + b"\0" + digest.encode())
            source = data.decode("utf-8")
            try:
                tree = ast.parse(source, filename=str(path))
            except SyntaxError as exc:
                raise AnalysisError(f"cannot parse {path}: {exc}") from exc
            # functions that differ from their recorded reference only in the names of locals get the recorded names back
            self.alpha_renamed = getattr(self, "alpha_renamed", 0) + alpha.normalise(name, tree)
            mod = Module(
                name=name,
                path=path,
                relpath=str(path.relative_to(self.root)),
                source=source,
                tree=tree,
                digest=digest,
            )
            self._index_module(mod)
            self.modules[name] = mod
        self.digest = tree_hash.hexdigest()

    def _index_module(self, mod: Module) -> None:
        pkg_parts = mod.name.split(".")
        is_pkg = mod.path.name == "__init__.py"

        def visit(node: ast.AST, prefix: str, parent: ast.AST | None, func: ast.AST | None, cls):
            for child in ast.iter_child_nodes(node):
                child._parent = node  # type: ignore[attr-defined]
                child._module = mod  # type: ignore[attr-defined]
                if isinstance(child, (ast.FunctionDef, ast.AsyncFunctionDef)):
                    qn = f"{prefix}{child.name}"
                    child._qualname = qn  # type: ignore[attr-defined]
                    child._class = cls  # type: ignore[attr-defined]
                    child._func = func  # type: ignore[attr-defined]
                    # keep the first definition unless later ones are overloads/properties
                    key = qn
                    if key in mod.functions:
                        # property setter etc.: disambiguate
                        deco = [norm(d) for d in child.decorator_list]
                        suffix = next((d.split(".")[-1] for d in deco if d.endswith((".setter", ".deleter"))), None)
                        key = f"{qn}@{suffix}" if suffix else f"{qn}#{child.lineno}"
                    mod.functions[key] = child
                    visit(child, f"{qn}.<locals>.", child, child, None)
                elif isinstance(child, ast.ClassDef):
                    qn = f"{prefix}{child.name}"
                    child._qualname = qn  # type: ignore[attr-defined]
                    child._func = func  # type: ignore[attr-defined]
                    mod.classes.setdefault(qn, child)
                    visit(child, f"{qn}.", child, func, child)
                else:
                    child._func = func  # type: ignore[attr-defined]
                    child._class = cls  # type: ignore[attr-defined]
                    visit(child, prefix, child, func, cls)

        mod.tree._module = mod  # type: ignore[attr-defined]
        visit(mod.tree, "", None, None, None)

        for node in ast.walk(mod.tree):
            if isinstance(node, ast.Import):
                for a in node.names:
                    if a.asname:
                        mod.imports[a.asname] = a.name
                    else:
                        mod.imports[a.name.split(".")[0]] = a.name.split(".")[0]
            elif isinstance(node, ast.ImportFrom):
                base = node.module or ""
                if node.level:
                    anchor = pkg_parts if is_pkg else pkg_parts[:-1]
                    anchor = anchor[: len(anchor) - (node.level - 1)]
                    base = ".".join([*anchor, base]) if base else ".".join(anchor)
                for a in node.names:
                    mod.imports[a.asname or a.name] = f"{base}.{a.name}"
        for stmt in mod.tree.body:
            self._collect_assigns(stmt, mod)

    def _collect_assigns(self, stmt: ast.stmt, mod: Module) -> None:
        if isinstance(stmt, ast.Assign):
            for t in stmt.targets:
                if isinstance(t, ast.Name):
                    mod.assigns[t.id] = stmt.value
        elif isinstance(stmt, ast.AnnAssign) and isinstance(stmt.target, ast.Name) and stmt.value is not None:
            mod.assigns[stmt.target.id] = stmt.value
        elif isinstance(stmt, ast.If):
            for s in [*stmt.body, *stmt.orelse]:
                self._collect_assigns(s, mod)

    # ------------------------------------------------------------------ lookup
    def module(self, name: str) -> Module:
        try:
            return self.modules[name]
        except KeyError:
            raise AnalysisError(f"anchor module vanished: {name}") from None

    def has_module(self, name: str) -> bool:
        return name in self.modules

    def func(self, module: str, qualname: str) -> ast.FunctionDef:
        mod = self.module(module)
        try:
            return mod.functions[qualname]  # type: ignore[return-value]
        except KeyError:
            raise AnalysisError(f"anchor function vanished: {module}:{qualname}") from None

    def try_func(self, module: str, qualname: str):
        mod = self.modules.get(module)
        if mod is None:
            return None
        return mod.functions.get(qualname)

    def cls(self, module: str, qualname: str) -> ast.ClassDef:
        mod = self.module(module)
        try:
            return mod.classes[qualname]
        except KeyError:
            raise AnalysisError(f"anchor class vanished: {module}:{qualname}") from None

    def try_cls(self, module: str, qualname: str):
        mod = self.modules.get(module)
        return None if mod is None else mod.classes.get(qualname)

    def const(self, module: str, name: str) -> ast.AST:
        mod = self.module(module)
        try:
            return mod.assigns[name]
        except KeyError:
            raise AnalysisError(f"anchor constant vanished: {module}:{name}") from None

    def methods(self, cls: ast.ClassDef) -> dict[str, ast.FunctionDef]:
        out: dict[str, ast.FunctionDef] = {}
        for s in cls.body:
            if isinstance(s, (ast.FunctionDef, ast.AsyncFunctionDef)):
                out.setdefault(s.name, s)  # type: ignore[arg-type]
        return out

    def all_functions(self, prefix: str = "pynguin"):
        for mname, mod in self.modules.items():
            if not (mname == prefix or mname.startswith(prefix + ".") or prefix == ""):
                continue
            for qn, fn in mod.functions.items():
                yield mod, qn, fn

    # ------------------------------------------------------------------ name resolution
    def resolve_name(self, mod: Module, dotted: str) -> tuple[str, str] | None:
        """Resolve a dotted expression used in `mod` to (module, qualname) of a class/function/const."""
        parts = dotted.split(".")
        head_ = parts[0]
        if head_ in mod.classes or head_ in mod.functions or head_ in mod.assigns:
            return (mod.name, dotted)
        if head_ in mod.imports:
            target = mod.imports[head_].split(".") + parts[1:]
            # longest module prefix
            for i in range(len(target), 0, -1):
                mname = ".".join(target[:i])
                if mname in self.modules:
                    rest = ".".join(target[i:])
                    if not rest:
                        return (mname, "")
                    m2 = self.modules[mname]
                    first = rest.split(".")[0]
                    if first in m2.classes or first in m2.functions or first in m2.assigns:
                        return (mname, rest)
                    if first in m2.imports and mname != mod.name:
                        return self.resolve_name(m2, rest)
                    return (mname, rest)
            return None
        return None

    def class_bases(self, mod: Module, cls: ast.ClassDef) -> list[tuple[str, str]]:
        out = []
        for b in cls.bases:
            if isinstance(b, ast.Subscript):
                b = b.value
            r = self.resolve_name(mod, norm(b))
            if r and r[0] in self.modules and r[1] in self.modules[r[0]].classes:
                out.append(r)
        return out

    def mro(self, module: str, qualname: str) -> list[tuple[str, str]]:
        """Static linearisation (DFS, left-to-right, duplicates keep last position like C3 for trees)."""
        key = (module, qualname)
        if key in self._mro_cache:
            return self._mro_cache[key]
        mod = self.module(module)
        cls = mod.classes.get(qualname)
        if cls is None:
            raise AnalysisError(f"anchor class vanished: {module}:{qualname}")
        seqs = [[key]]
        bases = self.class_bases(mod, cls)
        for b in bases:
            seqs.append(list(self.mro(*b)))
        seqs.append(list(bases))
        # C3 merge
        result: list[tuple[str, str]] = []
        seqs = [s for s in seqs if s]
        while seqs:
            for s in seqs:
                cand = s[0]
                if not any(cand in t[1:] for t in seqs):
                    break
            else:
                cand = seqs[0][0]
            result.append(cand)
            seqs = [[x for x in s if x != cand] for s in seqs]
            seqs = [s for s in seqs if s]
        self._mro_cache[key] = result
        return result

    def resolve_method(self, module: str, clsname: str, meth: str):
        """Return (module, class, FunctionDef) of the effective method via the static MRO."""
        for m, c in self.mro(module, clsname):
            cdef = self.modules[m].classes[c]
            fn = self.methods(cdef).get(meth)
            if fn is not None:
                return m, c, fn
        return None

    def class_attr(self, module: str, clsname: str, attr: str):
        """Effective class-level assignment `attr = ...` via the MRO -> (module, class, value)."""
        for m, c in self.mro(module, clsname):
            cdef = self.modules[m].classes[c]
            for s in cdef.body:
                if isinstance(s, ast.Assign):
                    for t in s.targets:
                        if isinstance(t, ast.Name) and t.id == attr:
                            return m, c, s.value
                elif isinstance(s, ast.AnnAssign) and isinstance(s.target, ast.Name) and s.target.id == attr and s.value is not None:
                    return m, c, s.value
        return None

    def subclasses(self, module: str, qualname: str) -> list[tuple[str, str]]:
        out = []
        for mname, mod in self.modules.items():
            for cq in mod.classes:
                try:
                    if (module, qualname) in self.mro(mname, cq)[1:]:
                        out.append((mname, cq))
                except AnalysisError:
                    continue
        return out

    def dataclass_fields(self, cls: ast.ClassDef) -> list[tuple[str, ast.AST | None, ast.AST | None]]:
        out = []
        for s in cls.body:
            if isinstance(s, ast.AnnAssign) and isinstance(s.target, ast.Name):
                ann = norm(s.annotation)
                if ann.startswith("ClassVar"):
                    continue
                out.append((s.target.id, s.annotation, s.value))
        return out

    # ------------------------------------------------------------------ constant folding
    def fold(self, mod: Module, expr: ast.AST, depth: int = 0):
        """Fold tuple/list/set/str/int constants, names and `+` concatenations. None if unknown."""
        if depth > 40:
            return None
        if isinstance(expr, ast.Constant):
            return expr.value
        if isinstance(expr, (ast.Tuple, ast.List, ast.Set)):
            vals = []
            for e in expr.elts:
                if isinstance(e, ast.Starred):
                    sub = self.fold(mod, e.value, depth + 1)
                    if sub is None:
                        return None
                    vals.extend(sub)
                else:
                    v = self.fold(mod, e, depth + 1)
                    if v is None and not (isinstance(e, ast.Constant) and e.value is None):
                        return None
                    vals.append(v)
            return tuple(vals)
        if isinstance(expr, ast.BinOp) and isinstance(expr.op, ast.Add):
            l, r = self.fold(mod, expr.left, depth + 1), self.fold(mod, expr.right, depth + 1)
            if l is None or r is None:
                return None
            try:
                return l + r
            except TypeError:
                return None
        if isinstance(expr, ast.Call) and isinstance(expr.func, ast.Name) and expr.func.id in ("frozenset", "set", "tuple") and len(expr.args) == 1:
            return self.fold(mod, expr.args[0], depth + 1)
        if isinstance(expr, (ast.Name, ast.Attribute)):
            dotted = norm(expr)
            if isinstance(expr, ast.Name) and expr.id in mod.assigns:
                return self.fold(mod, mod.assigns[expr.id], depth + 1)
            r = self.resolve_name(mod, dotted)
            if r and r[0] in self.modules and r[1]:
                m2 = self.modules[r[0]]
                if r[1] in m2.assigns:
                    return self.fold(m2, m2.assigns[r[1]], depth + 1)
                if "." in r[1]:
                    cname, _, attr = r[1].rpartition(".")
                    if cname in m2.classes:
                        ca = self.class_attr(r[0], cname, attr)
                        if ca:
                            return self.fold(self.modules[ca[0]], ca[2], depth + 1)
            return None
        return None


# ---------------------------------------------------------------------- small AST helpers
def parent(node: ast.AST):
    return getattr(node, "_parent", None)


def enclosing_function(node: ast.AST):
    if isinstance(node, (ast.FunctionDef, ast.AsyncFunctionDef)):
        return getattr(node, "_func", None)
    return getattr(node, "_func", None)


def qualname(fn: ast.AST) -> str:
    return getattr(fn, "_qualname", getattr(fn, "name", "?"))


def module_of(node: ast.AST) -> Module:
    return node._module  # type: ignore[attr-defined]


def own_nodes(fn: ast.AST, include_nested: bool = False):
    """Walk nodes of a function body, not descending into nested defs/classes (unless asked)."""
    stack = list(ast.iter_child_nodes(fn))
    while stack:
        n = stack.pop()
        yield n
        if not include_nested and isinstance(n, (ast.FunctionDef, ast.AsyncFunctionDef, ast.ClassDef, ast.Lambda)):
            continue
        stack.extend(ast.iter_child_nodes(n))


def calls_in(node: ast.AST, include_nested: bool = False):
    for n in own_nodes(node, include_nested):
        if isinstance(n, ast.Call):
            yield n


def call_name(call: ast.Call) -> str:
    """Dotted name of the callee expression ('' if not a plain dotted name)."""
    f = call.func
    parts = []
    while isinstance(f, ast.Attribute):
        parts.append(f.attr)
        f = f.value
    if isinstance(f, ast.Name):
        parts.append(f.id)
        return ".".join(reversed(parts))
    if parts:
        return "?." + ".".join(reversed(parts))
    return ""


def last_attr(call: ast.Call) -> str:
    f = call.func
    if isinstance(f, ast.Attribute):
        return f.attr
    if isinstance(f, ast.Name):
        return f.id
    return ""


def stmt_of(node: ast.AST) -> ast.stmt:
    n = node
    while n is not None and not isinstance(n, ast.stmt):
        n = parent(n)
    return n  # type: ignore[return-value]


def ancestors(node: ast.AST):
    n = parent(node)
    while n is not None:
        yield n
        n = parent(n)


def decorator_names(fn) -> list[str]:
    out = []
    for d in fn.decorator_list:
        if isinstance(d, ast.Call):
            d = d.func
        out.append(norm(d))
    return out


def kwarg(call: ast.Call, name: str):
    for k in call.keywords:
        if k.arg == name:
            return k.value
    return None


def arg_or_kw(call: ast.Call, pos: int, name: str):
    v = kwarg(call, name)
    if v is not None:
        return v
    if pos < len(call.args) and not any(isinstance(a, ast.Starred) for a in call.args[: pos + 1]):
        return call.args[pos]
    return None


def params(fn) -> list[str]:
    a = fn.args
    return [x.arg for x in [*a.posonlyargs, *a.args, *a.kwonlyargs]]


def inline_locals(fn: ast.AST, expr: ast.AST, depth: int = 5) -> ast.AST:
    """Copy of `expr` in which every local of `fn` that is assigned exactly once (plain `name = value`, not a
    parameter, loop target, augmented or walrus target) is replaced by its defining expression: rules compare the
    result, which does not depend on how locals are called."""
    import copy

    params = {a.arg for a in [*fn.args.posonlyargs, *fn.args.args, *fn.args.kwonlyargs]} if hasattr(fn, "args") else set()
    defs: dict[str, list] = {}
    blocked = set(params)
    for n in own_nodes(fn):
        if isinstance(n, ast.Assign) and len(n.targets) == 1 and isinstance(n.targets[0], ast.Name):
            defs.setdefault(n.targets[0].id, []).append(n.value)
        elif isinstance(n, ast.AnnAssign) and isinstance(n.target, ast.Name) and n.value is not None:
            defs.setdefault(n.target.id, []).append(n.value)
        elif isinstance(n, ast.Name) and isinstance(n.ctx, ast.Store):
            p = parent(n)
            if not (isinstance(p, (ast.Assign, ast.AnnAssign)) and (getattr(p, "targets", [None])[0] is n or getattr(p, "target", None) is n)):
                blocked.add(n.id)  # loop / with / tuple / augmented / walrus target
    single = {k: v[0] for k, v in defs.items() if len(v) == 1 and k not in blocked}

    class T(ast.NodeTransformer):
        def __init__(self, left):
            self.left = left

        def visit_Name(self, node):
            if isinstance(node.ctx, ast.Load) and node.id in single and self.left > 0:
                return T(self.left - 1).visit(copy.deepcopy(single[node.id]))
            return node

    return T(depth).visit(copy.deepcopy(expr))


def inorm(fn: ast.AST, expr: ast.AST) -> str:
    """norm() of `expr` with the single-assignment locals of `fn` inlined."""
    return norm(inline_locals(fn, expr))


def _relink(root: ast.AST, original: ast.AST) -> ast.AST:
    """Re-establish the index's private links (_parent, _module, _func, ...) on a deep copy of a function."""
    for attr in ("_parent", "_module", "_qualname", "_class", "_func"):
        if hasattr(original, attr):
            setattr(root, attr, getattr(original, attr))
    mod = getattr(original, "_module", None)
    stack = [root]
    while stack:
        node = stack.pop()
        for child in ast.iter_child_nodes(node):
            child._parent = node  # type: ignore[attr-defined]
            child._module = mod  # type: ignore[attr-defined]
            if not hasattr(child, "_func"):
                child._func = root if not isinstance(node, (ast.FunctionDef, ast.AsyncFunctionDef)) or node is root else node  # type: ignore[attr-defined]
            stack.append(child)
    return root


def rename_locals(fn: ast.AST, mapping: dict[str, str]) -> ast.AST:
    """A linked deep copy of `fn` in which the locals `mapping` names are renamed (parameters are never renamed)."""
    import copy

    params = {a.arg for a in [*fn.args.posonlyargs, *fn.args.args, *fn.args.kwonlyargs]}
    mapping = {k: v for k, v in mapping.items() if k not in params and k != v}
    new = copy.deepcopy(fn)
    if mapping:
        for n in ast.walk(new):
            if isinstance(n, ast.Name) and n.id in mapping:
                n.id = mapping[n.id]
    return _relink(new, fn)


def canonical_by_callee(fn: ast.AST, callee: ast.AST, is_call) -> ast.AST:
    """Rename the locals of `fn` that are passed to `callee` (calls selected by `is_call`) after the parameters
    they feed: rules written against the parameter names then hold however the caller spells its locals.
    Returns `fn` itself when there is nothing to rename or the calls disagree."""
    cparams = [a.arg for a in [*callee.args.posonlyargs, *callee.args.args] if a.arg not in ("self", "cls")] if callee is not None else []
    mapping: dict[str, str] = {}
    for c in own_nodes(fn):
        if not (isinstance(c, ast.Call) and is_call(c)):
            continue
        pairs = [(a, cparams[i]) for i, a in enumerate(c.args) if i < len(cparams) and isinstance(a, ast.Name)]
        pairs += [(k.value, k.arg) for k in c.keywords if k.arg and isinstance(k.value, ast.Name)]
        for a, pname in pairs:
            if mapping.get(a.id, pname) != pname:
                return fn  # one local feeds different parameters: no canonical name
            mapping[a.id] = pname
    taken = {n.id for n in ast.walk(fn) if isinstance(n, ast.Name)} | {a.arg for a in fn.args.args}
    mapping = {k: v for k, v in mapping.items() if k != v and v not in taken}
    return rename_locals(fn, mapping) if mapping else fn


def rename_roles(fn: ast.AST, roles: dict) -> ast.AST:
    """A linked copy of `fn` whose locals are renamed to the role names of `roles` (role -> finder(fn) returning the
    local's present name or None). Lets a rule speak about `changed` or `state` whatever the function calls them."""
    taken = {n.id for n in ast.walk(fn) if isinstance(n, ast.Name)} | {a.arg for a in [*fn.args.posonlyargs, *fn.args.args, *fn.args.kwonlyargs]}
    mapping = {}
    for role, finder in roles.items():
        try:
            cur = finder(fn)
        except (StopIteration, AttributeError, IndexError):
            cur = None
        if cur and cur != role and role not in taken and cur not in mapping:
            mapping[cur] = role
    return rename_locals(fn, mapping) if mapping else fn


def assigned_from(fn: ast.AST, pred) -> str | None:
    """Name of the local that is assigned a value satisfying pred(value node) (first such plain assignment)."""
    for n in sorted((x for x in own_nodes(fn) if isinstance(x, (ast.Assign, ast.AnnAssign))), key=lambda x: (x.lineno, x.col_offset)):
        tgt = n.targets[0] if isinstance(n, ast.Assign) and len(n.targets) == 1 else getattr(n, "target", None)
        if isinstance(tgt, ast.Name) and n.value is not None and pred(n.value):
            return tgt.id
    return None


def unpacked_from(fn: ast.AST, pred, position: int) -> str | None:
    """Name bound at `position` of a tuple target whose assigned value satisfies pred."""
    for n in own_nodes(fn):
        if isinstance(n, ast.Assign) and len(n.targets) == 1 and isinstance(n.targets[0], (ast.Tuple, ast.List)) and pred(n.value):
            elts = n.targets[0].elts
            if position < len(elts) and isinstance(elts[position], ast.Name):
                return elts[position].id
    return None
