"""Boolean-formula extraction and truth-table comparison for small decision functions.

A function whose body consists of local assignments, `if` statements and `return`
statements is evaluated *symbolically over its atoms*: every boolean sub-expression that
is not an and/or/not/if-expression is an atom (identified by its normalised text after
substituting local names by their defining expressions).  For each assignment of truth
values to the atoms the function yields the normalised text of the returned expression.
Nothing from the analysed program is executed.
"""

from __future__ import annotations

import ast
import copy
import itertools

from .index import norm


class Undecided(Exception):
    pass


def _clean(expr):
    """Fresh copy of an expression without the index's back pointers (_parent/_module would
    make copy.deepcopy drag the whole module along)."""
    return ast.parse(ast.unparse(expr), mode="eval").body


class _Subst(ast.NodeTransformer):
    def __init__(self, env):
        self.env = env

    def visit_Name(self, node):
        if isinstance(node.ctx, ast.Load) and node.id in self.env:
            return _clean(self.env[node.id])
        return node


def subst(expr, env):
    return _Subst(env).visit(_clean(expr))


def atoms_of(expr, out=None):
    out = out if out is not None else []
    if isinstance(expr, ast.BoolOp):
        for v in expr.values:
            atoms_of(v, out)
    elif isinstance(expr, ast.UnaryOp) and isinstance(expr.op, ast.Not):
        atoms_of(expr.operand, out)
    elif isinstance(expr, ast.IfExp):
        atoms_of(expr.test, out)
        atoms_of(expr.body, out)
        atoms_of(expr.orelse, out)
    elif isinstance(expr, ast.Constant) and isinstance(expr.value, bool):
        pass
    else:
        t = norm(expr)
        if t not in out:
            out.append(t)
    return out


def eval_bool(expr, val):
    """Evaluate a boolean expression given val: atom text -> bool."""
    if isinstance(expr, ast.BoolOp):
        if isinstance(expr.op, ast.And):
            return all(eval_bool(v, val) for v in expr.values)
        return any(eval_bool(v, val) for v in expr.values)
    if isinstance(expr, ast.UnaryOp) and isinstance(expr.op, ast.Not):
        return not eval_bool(expr.operand, val)
    if isinstance(expr, ast.IfExp):
        return eval_bool(expr.body, val) if eval_bool(expr.test, val) else eval_bool(expr.orelse, val)
    if isinstance(expr, ast.Constant) and isinstance(expr.value, bool):
        return expr.value
    t = norm(expr)
    if t not in val:
        raise Undecided(f"atom without value: {t}")
    return val[t]


def collect_function(fn):
    """(atoms, run) for a decision function; run(val) -> normalised text of the returned expression
    ('<none>' for falling off the end).  Raises Undecided for unsupported statements."""
    atoms: list[str] = []

    def scan(stmts, env):
        env = dict(env)
        for s in stmts:
            if isinstance(s, ast.Expr) and isinstance(s.value, ast.Constant):
                continue
            if isinstance(s, (ast.Assign, ast.AnnAssign)):
                tgt = s.targets[0] if isinstance(s, ast.Assign) else s.target
                if not isinstance(tgt, ast.Name) or s.value is None:
                    raise Undecided(f"unsupported assignment {norm(s)[:60]}")
                env[tgt.id] = subst(s.value, env)
            elif isinstance(s, ast.If):
                atoms_of(subst(s.test, env), atoms)
                scan(s.body, env)
                scan(s.orelse, env)
            elif isinstance(s, ast.Return):
                if s.value is not None:
                    v = subst(s.value, env)
                    if isinstance(v, (ast.BoolOp, ast.UnaryOp, ast.IfExp)):
                        atoms_of(v, atoms)
            elif isinstance(s, (ast.Pass, ast.Assert)):
                continue
            else:
                raise Undecided(f"unsupported statement {type(s).__name__}")

    scan(fn.body, {})

    def run(val):
        def go(stmts, env):
            env = dict(env)
            for s in stmts:
                if isinstance(s, ast.Expr) and isinstance(s.value, ast.Constant):
                    continue
                if isinstance(s, (ast.Assign, ast.AnnAssign)):
                    tgt = s.targets[0] if isinstance(s, ast.Assign) else s.target
                    env[tgt.id] = subst(s.value, env)
                elif isinstance(s, ast.If):
                    r = go(s.body if eval_bool(subst(s.test, env), val) else s.orelse, env)
                    if r is not None:
                        return r
                    # propagate env changes of the taken branch is not needed for decision functions
                elif isinstance(s, ast.Return):
                    if s.value is None:
                        return "<none>"
                    v = subst(s.value, env)
                    if isinstance(v, (ast.BoolOp, ast.UnaryOp, ast.IfExp)):
                        return "True" if eval_bool(v, val) else "False"
                    return norm(v)
            return None

        r = go(fn.body, {})
        return r if r is not None else "<none>"

    return atoms, run


def truth_table(atoms):
    for bits in itertools.product((False, True), repeat=len(atoms)):
        yield dict(zip(atoms, bits))


def raw_string_value_reads(repo, module_prefixes):
    """Reads of `<node>.raw_value` - the source text between the quotes of a libcst string node, escape sequences NOT
    processed - in the given modules.  The value of a string literal is `evaluated_value` (or literal_eval of the code);
    where a rendered string is read back, raw_value agrees with it only while repr() had nothing to escape."""
    import ast as _ast

    hits = []
    for mod in repo.modules.values():
        if not any(mod.name == p or mod.name.startswith(p + ".") for p in module_prefixes):
            continue
        for n in _ast.walk(mod.tree):
            if isinstance(n, _ast.Attribute) and n.attr == "raw_value" and isinstance(n.ctx, _ast.Load):
                hits.append((mod, n))
    return hits


def raw_string_value_selfcheck() -> bool:
    """The detector matches the construct it is written for (a rule whose expected count is zero must not be blind)."""
    import ast as _ast

    t = _ast.parse("def f(expr):\n    return expr.raw_value\n")
    return any(isinstance(n, _ast.Attribute) and n.attr == "raw_value" for n in _ast.walk(t))
