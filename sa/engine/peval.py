"""Partition-representative evaluation of small arithmetic / boolean expressions.

The analysed program is never executed.  An expression taken from its syntax tree is evaluated
by THIS evaluator over an environment of representative values chosen by the rule (one per cell
of a finite partition of the input domain: boundary values, values on either side of a
threshold).  Only the constructs below are understood; anything else raises Undecided and the
obligation is reported as undecided, never as a verdict.
"""

from __future__ import annotations

import ast
import math

from .index import norm


class Undecided(Exception):
    pass


class Raises(Exception):
    """The evaluated expression raises (the class name is the payload)."""


_FUNCS = {
    "int": int,
    "float": float,
    "max": max,
    "min": min,
    "abs": abs,
    "round": round,
    "len": len,
    "bool": bool,
    "math.floor": math.floor,
    "math.ceil": math.ceil,
    "math.isinf": math.isinf,
    "math.isnan": math.isnan,
    "math.isfinite": math.isfinite,
    "math.trunc": math.trunc,
}

_BIN = {
    ast.Add: lambda a, b: a + b,
    ast.Sub: lambda a, b: a - b,
    ast.Mult: lambda a, b: a * b,
    ast.Div: lambda a, b: a / b,
    ast.FloorDiv: lambda a, b: a // b,
    ast.Mod: lambda a, b: a % b,
    ast.Pow: lambda a, b: a**b,
}
_CMP = {
    ast.Lt: lambda a, b: a < b,
    ast.LtE: lambda a, b: a <= b,
    ast.Gt: lambda a, b: a > b,
    ast.GtE: lambda a, b: a >= b,
    ast.Eq: lambda a, b: a == b,
    ast.NotEq: lambda a, b: a != b,
    ast.Is: lambda a, b: a is b,
    ast.IsNot: lambda a, b: a is not b,
    ast.In: lambda a, b: a in b,
    ast.NotIn: lambda a, b: a not in b,
}


def ev(e: ast.AST, env: dict):
    """env maps normalised source text of names / attribute chains / calls to representative values."""
    t = norm(e)
    if t in env:
        return env[t]
    if isinstance(e, ast.Constant):
        return e.value
    if isinstance(e, ast.Name):
        if e.id in ("inf",):
            return math.inf
        raise Undecided(f"no representative for `{e.id}`")
    if isinstance(e, ast.Attribute):
        if t in ("math.inf",):
            return math.inf
        if t in ("math.nan",):
            return math.nan
        raise Undecided(f"no representative for `{t}`")
    if isinstance(e, ast.UnaryOp):
        v = ev(e.operand, env)
        if isinstance(e.op, ast.Not):
            return not v
        if isinstance(e.op, ast.USub):
            return -v
        if isinstance(e.op, ast.UAdd):
            return +v
        raise Undecided("unary op")
    if isinstance(e, ast.BinOp):
        f = _BIN.get(type(e.op))
        if f is None:
            raise Undecided("binary op")
        a, b = ev(e.left, env), ev(e.right, env)
        try:
            return f(a, b)
        except (ZeroDivisionError, OverflowError, TypeError, ValueError) as exc:
            raise Raises(type(exc).__name__) from None
    if isinstance(e, ast.BoolOp):
        if isinstance(e.op, ast.And):
            v = True
            for x in e.values:
                v = ev(x, env)
                if not v:
                    return v
            return v
        v = False
        for x in e.values:
            v = ev(x, env)
            if v:
                return v
        return v
    if isinstance(e, ast.Compare):
        left = ev(e.left, env)
        for op, c in zip(e.ops, e.comparators):
            right = ev(c, env)
            f = _CMP.get(type(op))
            if f is None:
                raise Undecided("compare op")
            if not f(left, right):
                return False
            left = right
        return True
    if isinstance(e, ast.IfExp):
        return ev(e.body, env) if ev(e.test, env) else ev(e.orelse, env)
    if isinstance(e, ast.Call):
        name = norm(e.func)
        f = _FUNCS.get(name)
        if f is None or e.keywords:
            raise Undecided(f"call `{name}`")
        args = [ev(a, env) for a in e.args]
        try:
            return f(*args)
        except (ZeroDivisionError, OverflowError, TypeError, ValueError) as exc:
            raise Raises(type(exc).__name__) from None
    if isinstance(e, (ast.Tuple, ast.List)):
        return tuple(ev(x, env) for x in e.elts)
    raise Undecided(f"expression `{t[:60]}`")


def run_block(stmts, env: dict, on_store=None):
    """Execute a straight-line block with if/assign/return/raise/assert/expr; returns ('return', v) | ('raise', name) | ('fall', None).
    Attribute stores are reported through on_store(target_text, value) and also kept in env."""
    env = env
    for s in stmts:
        if isinstance(s, ast.Expr):
            if isinstance(s.value, ast.Constant):
                continue
            if isinstance(s.value, ast.Call) and norm(s.value.func).split(".")[0] in ("_LOGGER", "LOGGER", "logging", "_logger", "self._logger"):
                continue
            ev(s.value, env)
            continue
        if isinstance(s, (ast.Assign, ast.AnnAssign)):
            if s.value is None:
                continue
            v = ev(s.value, env)
            tg = s.targets[0] if isinstance(s, ast.Assign) else s.target
            env[norm(tg)] = v
            if on_store is not None and not isinstance(tg, ast.Name):
                on_store(norm(tg), v)
            continue
        if isinstance(s, ast.AugAssign):
            cur = ev(s.target, env)
            v = _BIN[type(s.op)](cur, ev(s.value, env))
            env[norm(s.target)] = v
            if on_store is not None and not isinstance(s.target, ast.Name):
                on_store(norm(s.target), v)
            continue
        if isinstance(s, ast.If):
            r = run_block(s.body if ev(s.test, env) else s.orelse, env, on_store)
            if r[0] != "fall":
                return r
            continue
        if isinstance(s, ast.Return):
            return ("return", ev(s.value, env) if s.value is not None else None)
        if isinstance(s, ast.Raise):
            name = norm(s.exc.func) if isinstance(s.exc, ast.Call) else norm(s.exc) if s.exc is not None else "reraise"
            return ("raise", name)
        if isinstance(s, ast.Assert):
            if not ev(s.test, env):
                return ("raise", "AssertionError")
            continue
        if isinstance(s, ast.Pass):
            continue
        raise Undecided(f"statement {type(s).__name__}")
    return ("fall", None)
