"""Partition-representative evaluation of small pure functions taken from the analysed source.

The analysed program is never imported or executed.  A function's syntax tree is interpreted by
THIS evaluator over representative values chosen by the rule - one per cell of a finite partition
of the input domain (boundary values, values on either side of a threshold, one value per float
class).  Only the constructs below are understood; anything else raises Undecided and the
obligation is reported as undecided, never as a verdict.  Calls into the analysed package are
resolved through the source index and interpreted the same way; calls that leave the package are
either in the table of pure builtins below or Undecided.
"""

from __future__ import annotations

import ast
import collections.abc
import enum
import itertools
import math
import re
import numbers
import sys
import types

from .index import norm


class Undecided(Exception):
    pass


class Raises(Exception):
    """The evaluated code raises (payload: exception class name)."""

    def __init__(self, name: str, detail: str = ""):
        super().__init__(name)
        self.name = name
        self.detail = detail


class _Return(Exception):
    def __init__(self, value):
        self.value = value


class Token(str):
    """Symbolic constant (enum member, opaque object) compared by identity of its text."""


class Term:
    """Symbolic constructor application (e.g. a libcst node built by the analysed code)."""

    FIELDS = {
        "Float": ("value",), "Integer": ("value",), "SimpleString": ("value",), "Name": ("value",), "Imaginary": ("value",),
        "UnaryOperation": ("operator", "expression"), "BinaryOperation": ("left", "operator", "right"),
        "Call": ("func", "args"), "Arg": ("value", "keyword"), "Attribute": ("value", "attr"),
        "Element": ("value", "comma"), "DictElement": ("key", "value"), "List": ("elements",), "Tuple": ("elements",), "Set": ("elements",),
        "Dict": ("elements",), "Comparison": ("left", "comparisons"), "ComparisonTarget": ("operator", "comparator"),
        "Assert": ("test",), "SimpleStatementLine": ("body",), "parse_expression": ("source",), "Comma": (), "Minus": (), "Plus": (),
        "ArtificialInstr": ("name", "arg"), "Instr": ("name", "arg"),
    }

    def __init__(self, name, args, kwargs):
        self.name = name.split(".")[-1]
        fields = self.FIELDS.get(self.name, ())
        self.fields = dict(kwargs)
        for f, a in zip(fields, args):
            self.fields[f] = a
        self.extra_args = list(args[len(fields):])

    def get(self, attr):
        if attr in self.fields:
            return self.fields[attr]
        if attr == "evaluated_value" and self.name == "SimpleString":
            try:
                return ast.literal_eval(self.fields["value"])
            except (ValueError, SyntaxError) as exc:
                raise Raises("CSTValidationError", f"invalid string literal {self.fields['value']!r}") from exc
        if attr in ("args", "elements", "comparisons", "body"):
            return []
        if attr in ("keyword", "comma"):
            return None
        raise Undecided(f"field `{attr}` of {self.name}")

    def __repr__(self):
        return f"{self.name}({', '.join(f'{k}={v!r}' for k, v in self.fields.items())})"


class Obj:
    """Representative object: fields plus methods (python callables receiving evaluated arguments).
    Compared by identity, like an ordinary instance without __eq__."""

    def __init__(self, label="obj", fields=None, methods=None, classes=None):
        self.label = label
        self.fields = dict(fields or {})
        self.methods = dict(methods or {})
        self.props = {}
        self.setters = {}
        self.classes = list(classes or [label])

    def __repr__(self):
        return f"<{self.label}>"


class ProtoObj(Obj):
    """An instantiated class of the analysed package that implements container protocols: python's
    own operators and builtins (len, in, iter, set(), zip, ==) reach the interpreted methods."""

    def __len__(self):
        if "__len__" not in self.methods:
            raise TypeError(f"object of type {self.label} has no len()")
        return self.methods["__len__"]()

    def __iter__(self):
        if "__iter__" in self.methods:
            return iter(self.methods["__iter__"]())
        raise TypeError(f"{self.label} object is not iterable")

    def __contains__(self, item):
        if "__contains__" in self.methods:
            return bool(self.methods["__contains__"](item))
        return any(x is item or x == item for x in self)

    def __reversed__(self):
        if "__reversed__" in self.methods:
            return iter(self.methods["__reversed__"]())
        return iter(list(self)[::-1])

    def __getitem__(self, index):
        if "__getitem__" not in self.methods:
            raise TypeError(f"{self.label} object is not subscriptable")
        try:
            return self.methods["__getitem__"](index)
        except Raises as exc:
            if exc.name in ("IndexError", "KeyError", "StopIteration"):
                raise {"IndexError": IndexError, "KeyError": KeyError, "StopIteration": StopIteration}[exc.name](exc.detail) from None
            raise

    def __eq__(self, other):
        if "__eq__" in self.methods:
            return self.methods["__eq__"](other)
        return self is other

    def __ne__(self, other):
        r = self.__eq__(other)
        return r if r is NotImplemented else not r

    def __hash__(self):
        if "__hash__" in self.methods:
            return self.methods["__hash__"]()
        return id(self)

    def __bool__(self):
        if "__bool__" in self.methods:
            return bool(self.methods["__bool__"]())
        if "__len__" in self.methods:
            return len(self) > 0
        return True


_PROTOCOL_DUNDERS = ("__iter__", "__len__", "__contains__", "__getitem__")


class ClassRef:
    """Reference to a class of the analysed package (used in isinstance tests and for instantiation)."""

    def __init__(self, name, mro):
        self.name = name
        self.mro = mro  # [(ClassDef, Module)] most derived first

    def __repr__(self):
        return f"<class {self.name}>"


def _expr_to_term(text: str):
    """libcst.parse_expression for the shapes the renderers feed it: names and attribute chains."""
    try:
        node = ast.parse(text, mode="eval").body
    except SyntaxError:
        return None

    def conv(n):
        if isinstance(n, ast.Name):
            return Term("Name", [n.id], {})
        if isinstance(n, ast.Attribute):
            inner = conv(n.value)
            return None if inner is None else Term("Attribute", [], {"value": inner, "attr": Term("Name", [n.attr], {})})
        return None

    return conv(node)


class Closure:
    def __init__(self, params, body, env, interp, is_lambda, mod=None, argspec=None):
        self.params, self.body, self.env, self.interp, self.is_lambda, self.mod = params, body, env, interp, is_lambda, mod
        self.argspec = argspec  # ast.arguments of a nested def: defaults, *args, **kwargs, keyword-only parameters

    def __call__(self, *args, **kwargs):
        # lets builtins of the checker (min(key=...), sorted(key=...), map) call back into interpreted code
        return self.interp.apply(self, list(args), kwargs, self.mod)


EXC_PARENTS = {
    "OverflowError": "ArithmeticError",
    "ZeroDivisionError": "ArithmeticError",
    "FloatingPointError": "ArithmeticError",
    "ArithmeticError": "Exception",
    "TypeError": "Exception",
    "ValueError": "Exception",
    "UnicodeDecodeError": "ValueError",
    "UnicodeEncodeError": "ValueError",
    "KeyError": "LookupError",
    "IndexError": "LookupError",
    "LookupError": "Exception",
    "AttributeError": "Exception",
    "AssertionError": "Exception",
    "RuntimeError": "Exception",
    "NotImplementedError": "RuntimeError",
    "StopIteration": "Exception",
    "Exception": "BaseException",
}


def exc_matches(name: str, handler_names) -> bool:
    cur = name.split(".")[-1]
    seen = set()
    while cur and cur not in seen:
        if cur in handler_names:
            return True
        seen.add(cur)
        cur = EXC_PARENTS.get(cur, "BaseException" if cur != "BaseException" else "")
    return False


TYPES = {
    "int": int, "float": float, "str": str, "bytes": bytes, "bytearray": bytearray, "bool": bool, "complex": complex,
    "list": list, "tuple": tuple, "set": set, "frozenset": frozenset, "dict": dict, "type": type, "object": object,
    "numbers.Number": numbers.Number, "Number": numbers.Number, "numbers.Real": numbers.Real, "numbers.Integral": numbers.Integral,
    "Sized": collections.abc.Sized, "Iterable": collections.abc.Iterable, "Iterator": collections.abc.Iterator, "Sequence": collections.abc.Sequence, "Mapping": collections.abc.Mapping,
    "Collection": collections.abc.Collection, "Hashable": collections.abc.Hashable, "slice": slice, "staticmethod": staticmethod, "classmethod": classmethod, "property": property, "AbstractSet": collections.abc.Set, "MutableSet": collections.abc.MutableSet,
    "BaseException": BaseException, "Exception": Exception, "NoneType": type(None), "enum.Enum": enum.Enum, "Enum": enum.Enum,
    "GeneratorType": types.GeneratorType, "types.GeneratorType": types.GeneratorType, "Generator": collections.abc.Generator, "Container": collections.abc.Container,
    "Reversible": collections.abc.Reversible, "MutableSequence": collections.abc.MutableSequence, "MutableMapping": collections.abc.MutableMapping, "Set": collections.abc.Set,
    "FunctionType": types.FunctionType, "types.FunctionType": types.FunctionType, "ModuleType": types.ModuleType,
}

PURE = {
    "int": int, "float": float, "max": max, "min": min, "abs": abs, "round": round, "len": len, "bool": bool, "str": str, "repr": repr,
    "ord": ord, "chr": chr, "range": range, "sorted": sorted, "sum": sum, "any": any, "all": all, "list": list, "tuple": tuple, "set": set,
    "enumerate": enumerate, "zip": zip, "divmod": divmod, "pow": pow, "complex": complex, "type": type, "hash": hash, "bytes": bytes,
    "math.floor": math.floor, "math.ceil": math.ceil, "math.isinf": math.isinf, "math.isnan": math.isnan, "math.isfinite": math.isfinite,
    "math.trunc": math.trunc, "math.copysign": math.copysign, "math.sqrt": math.sqrt, "math.fabs": math.fabs, "math.isclose": math.isclose,
    "math.log": math.log, "math.exp": math.exp, "math.nextafter": math.nextafter, "math.ulp": math.ulp, "math.fsum": math.fsum, "statistics.mean": lambda xs: _guard(__import__("statistics").mean, list(xs)), "isclass": lambda x: isinstance(x, type), "inspect.isclass": lambda x: isinstance(x, type),
    "dict.fromkeys": dict.fromkeys, "itertools.chain": itertools.chain, "itertools.chain.from_iterable": itertools.chain.from_iterable, "set.intersection": set.intersection, "set.union": set.union, "cast": lambda _t, v: v, "typing.cast": lambda _t, v: v, "re.compile": re.compile, "re.split": re.split, "re.sub": re.sub, "re.fullmatch": re.fullmatch, "re.match": re.match, "re.search": re.search, "callable": callable, "issubclass": issubclass, "dir": dir, "map": map, "filter": filter, "reversed": reversed, "iter": iter, "next": next, "dict": dict, "frozenset": frozenset, "getattr": getattr, "hasattr": hasattr, "id": id, "hex": hex,
}
import builtins as _builtins  # noqa: E402

CONSTS = {"NotImplemented": NotImplemented, "builtins": _builtins, "inf": math.inf, "math.inf": math.inf, "math.nan": math.nan, "math.pi": math.pi, "sys.float_info.min": sys.float_info.min,
          "sys.float_info.max": sys.float_info.max, "sys.float_info.epsilon": sys.float_info.epsilon, "sys.maxsize": sys.maxsize}
STR_METHODS = {"rsplit", "splitlines", "expandtabs", "isspace", "zfill", "ljust", "rjust", "center", "swapcase", "casefold", "isidentifier", "isdigit", "isalpha", "isalnum", "isupper", "islower", "title", "capitalize", "startswith", "endswith", "lstrip", "rstrip", "strip", "lower", "upper", "split", "rpartition", "partition", "replace", "join",
               "removeprefix", "removesuffix", "decode", "encode", "isdigit", "format", "count", "find", "is_integer", "real", "imag", "hex", "bit_length",
               "conjugate", "as_integer_ratio", "get", "keys", "values", "items", "index", "copy", "union", "intersection", "issubset", "issuperset", "difference", "isdisjoint"}

_BIN = {
    ast.Add: lambda a, b: a + b, ast.Sub: lambda a, b: a - b, ast.Mult: lambda a, b: a * b, ast.Div: lambda a, b: a / b,
    ast.FloorDiv: lambda a, b: a // b, ast.Mod: lambda a, b: a % b, ast.Pow: lambda a, b: a**b, ast.BitOr: lambda a, b: a | b,
    ast.BitAnd: lambda a, b: a & b, ast.BitXor: lambda a, b: a ^ b, ast.LShift: lambda a, b: a << b, ast.RShift: lambda a, b: a >> b,
}
_CMP = {
    ast.Lt: lambda a, b: a < b, ast.LtE: lambda a, b: a <= b, ast.Gt: lambda a, b: a > b, ast.GtE: lambda a, b: a >= b,
    ast.Eq: lambda a, b: a == b, ast.NotEq: lambda a, b: a != b, ast.Is: lambda a, b: a is b, ast.IsNot: lambda a, b: a is not b,
    ast.In: lambda a, b: a in b, ast.NotIn: lambda a, b: a not in b,
}
_PYEXC = (ZeroDivisionError, OverflowError, TypeError, ValueError, AttributeError, KeyError, IndexError, UnicodeError)


_DUNDER = {ast.Add: "__add__", ast.Sub: "__sub__", ast.Mult: "__mul__", ast.BitOr: "__or__", ast.BitAnd: "__and__"}


def _binop(op, a, b):
    if isinstance(a, Obj) and _DUNDER.get(type(op)) in a.methods:
        return a.methods[_DUNDER[type(op)]](b)
    return _guard(_BIN[type(op)], a, b)


def _guard(f, *a, **k):
    try:
        return f(*a, **k)
    except (Undecided, Raises, _Return, _Break, _Continue):
        raise
    except Exception as exc:  # noqa: BLE001 - whatever a builtin or a representative object of the checker raises is an exception of the interpreted program
        # remember the real class hierarchy of exceptions the table does not know (decimal.Overflow -> ArithmeticError ...)
        mro = [c.__name__ for c in type(exc).__mro__ if c not in (object,)]
        for child, par in zip(mro, mro[1:]):
            EXC_PARENTS.setdefault(child, par)
        raise Raises(type(exc).__name__, str(exc)) from None


class Interp:
    """resolver(dotted name, module) -> (FunctionDef, Module) | None resolves calls into the analysed package.
    identity: names of calls treated as identity on their first argument; sinks: names of calls recorded, not evaluated."""

    def __init__(self, resolver=None, identity=(), sinks=(), max_steps: int = 200000, on_store=None, ctor_prefixes=(), externs=None, class_resolver=None, consts=None, native_types=()):
        self.native_types = tuple(native_types)  # representative objects of the checker whose attributes / methods are used natively
        self.class_resolver = class_resolver
        self.consts = dict(consts or {})
        self.ctor_prefixes = tuple(ctor_prefixes)
        self.externs = dict(externs or {})
        self.resolver = resolver
        self.identity = set(identity)
        self.sinks = set(sinks)
        self.sink_calls: list[tuple[str, list, dict]] = []
        self.steps = 0
        self.max_steps = max_steps
        self.on_store = on_store
        self.class_store: dict[tuple[str, str], object] = {}  # (class name, attribute) -> value of attributes stored on a class of the analysed package

    # ------------------------------------------------------------------ expressions
    def ev(self, e: ast.AST, env: dict, mod=None):
        self.steps += 1
        if self.steps > self.max_steps:
            raise Undecided("step budget exhausted")
        t = None
        if isinstance(e, (ast.Name, ast.Attribute, ast.Subscript, ast.Call)):
            t = norm(e)
            if t in env:
                return env[t]
        if isinstance(e, ast.Constant):
            return e.value
        if isinstance(e, (ast.Name, ast.Attribute)) and self.consts and t in self.consts:
            return self.consts[t]
        if isinstance(e, (ast.Name, ast.Attribute)) and self.class_resolver is not None:
            mro = self.class_resolver(t, mod)
            if mro:
                return ClassRef(t.split(".")[-1], mro)
        if isinstance(e, ast.Name) and mod is not None and e.id in getattr(mod, "functions", {}) and e.id not in self.externs:
            fn_, mod_ = mod.functions[e.id], mod
            return lambda *a, **k: self.run_function(fn_, list(a), k, mod_)
        if isinstance(e, ast.Name) and mod is not None and e.id in getattr(mod, "assigns", {}) and e.id not in CONSTS and e.id not in TYPES:
            return self.ev(mod.assigns[e.id], {}, mod)
        if isinstance(e, ast.Name):
            if e.id in CONSTS:
                return CONSTS[e.id]
            if e.id in ("True", "False", "None"):
                return {"True": True, "False": False, "None": None}[e.id]
            if e.id in TYPES:
                return TYPES[e.id]
            if e.id in ("repr", "str", "len", "abs", "id", "ord"):
                return PURE[e.id]  # a builtin passed as a value (sort keys)
            raise Undecided(f"no representative for `{e.id}`")
        if isinstance(e, ast.Attribute):
            if t in CONSTS:
                return CONSTS[t]
            if t in TYPES:
                return TYPES[t]
            try:
                base = self.ev(e.value, env, mod)
            except Undecided:
                # symbolic constant such as an enum member
                return Token(t)
            if isinstance(base, Token):
                return Token(f"{base}.{e.attr}")
            if isinstance(base, Term):
                return base.get(e.attr)
            if isinstance(base, Obj):
                if e.attr == "__class__" and getattr(base, "mro", None):
                    return ClassRef(base.label, base.mro)
                if e.attr in base.props:
                    return base.props[e.attr]()
                if e.attr in base.fields:
                    return base.fields[e.attr]
                if e.attr in base.methods:
                    return base.methods[e.attr]
                for cname in base.classes:
                    if (cname, e.attr) in self.class_store:
                        return self.class_store[cname, e.attr]
                raise Raises("AttributeError", f"{base!r}.{e.attr}")
            if isinstance(base, enum.Enum) and e.attr in ("name", "value"):
                return getattr(base, e.attr)
            if self.native_types and isinstance(base, self.native_types):
                return _guard(getattr, base, e.attr)
            if isinstance(base, types.ModuleType):
                return _guard(getattr, base, e.attr)
            if e.attr in ("real", "imag", "numerator", "denominator", "__name__", "__class__", "__mro__", "__bases__", "__qualname__", "__module__") and not isinstance(base, dict):
                return _guard(getattr, base, e.attr)
            if isinstance(base, dict) and e.attr in base:
                return base[e.attr]
            raise Undecided(f"attribute `{t}`")
        if isinstance(e, ast.UnaryOp):
            v = self.ev(e.operand, env, mod)
            if isinstance(e.op, ast.Not):
                return not v
            if isinstance(e.op, ast.USub):
                return _guard(lambda: -v)
            if isinstance(e.op, ast.UAdd):
                return _guard(lambda: +v)
            if isinstance(e.op, ast.Invert):
                return _guard(lambda: ~v)
        if isinstance(e, ast.BinOp):
            f = _BIN.get(type(e.op))
            if f is None:
                raise Undecided("binary op")
            a, b = self.ev(e.left, env, mod), self.ev(e.right, env, mod)
            if isinstance(e.op, ast.BitOr) and isinstance(a, (type, Token, tuple)) and isinstance(b, (type, Token)) and not isinstance(a, bool):
                if isinstance(a, tuple):
                    if all(isinstance(x, (type, Token)) for x in a):
                        return (*a, b)
                else:
                    return (a, b)
            if isinstance(a, tuple) and isinstance(b, type) and isinstance(e.op, ast.BitOr) and all(isinstance(x, type) for x in a):
                return (*a, b)
            return _binop(e.op, a, b)
        if isinstance(e, ast.BoolOp):
            v = None
            for x in e.values:
                v = self.ev(x, env, mod)
                if isinstance(e.op, ast.And) and not v:
                    return v
                if isinstance(e.op, ast.Or) and v:
                    return v
            return v
        if isinstance(e, ast.Compare):
            left = self.ev(e.left, env, mod)
            for op, c in zip(e.ops, e.comparators):
                right = self.ev(c, env, mod)
                f = _CMP[type(op)]
                if isinstance(left, Token) or isinstance(right, Token):
                    if isinstance(op, (ast.Eq, ast.Is)):
                        r = str(left) == str(right) and type(left) is type(right)
                    elif isinstance(op, (ast.NotEq, ast.IsNot)):
                        r = not (str(left) == str(right) and type(left) is type(right))
                    elif isinstance(op, (ast.In, ast.NotIn)) and isinstance(right, (set, frozenset, tuple, list)):
                        hit = any(type(x) is type(left) and (str(x) == str(left) if isinstance(left, Token) else x == left) for x in right)
                        r = hit if isinstance(op, ast.In) else not hit
                    else:
                        raise Undecided("ordering of symbolic constants")
                else:
                    r = _guard(f, left, right)
                if not r:
                    return r
                left = right
            return True
        if isinstance(e, ast.IfExp):
            return self.ev(e.body, env, mod) if self.ev(e.test, env, mod) else self.ev(e.orelse, env, mod)
        if isinstance(e, (ast.Tuple, ast.List)):
            vals = []
            for x in e.elts:
                if isinstance(x, ast.Starred):
                    vals.extend(self.ev(x.value, env, mod))
                else:
                    vals.append(self.ev(x, env, mod))
            return tuple(vals) if isinstance(e, ast.Tuple) else vals
        if isinstance(e, ast.Set):
            return {self.ev(x, env, mod) for x in e.elts}
        if isinstance(e, ast.Dict):
            return {self.ev(k, env, mod): self.ev(v, env, mod) for k, v in zip(e.keys, e.values)}
        if isinstance(e, ast.Subscript):
            base = self.ev(e.value, env, mod)
            if isinstance(e.slice, ast.Slice):
                lo = self.ev(e.slice.lower, env, mod) if e.slice.lower else None
                hi = self.ev(e.slice.upper, env, mod) if e.slice.upper else None
                st = self.ev(e.slice.step, env, mod) if e.slice.step else None
                return _guard(lambda: base[lo:hi:st])
            idx = self.ev(e.slice, env, mod)
            return _guard(lambda: base[idx])
        if isinstance(e, ast.JoinedStr):
            out = []
            for v in e.values:
                if isinstance(v, ast.Constant):
                    out.append(v.value)
                else:
                    val = self.ev(v.value, env, mod)
                    spec = self.ev(v.format_spec, env, mod) if v.format_spec is not None else ""
                    if v.conversion == ord("r"):
                        val = repr(val)
                    elif v.conversion == ord("s"):
                        val = str(val)
                    out.append(_guard(format, val, spec))
            return "".join(out)
        if isinstance(e, ast.Lambda):
            return Closure([a.arg for a in e.args.args], e.body, dict(env), self, True, mod)
        if isinstance(e, (ast.ListComp, ast.GeneratorExp, ast.SetComp)):
            res = []
            self._comp(e, 0, dict(env), mod, res)
            return set(res) if isinstance(e, ast.SetComp) else res
        if isinstance(e, ast.DictComp):
            pairs = []
            fake = ast.ListComp(elt=ast.Tuple(elts=[e.key, e.value], ctx=ast.Load()), generators=e.generators)
            self._comp(fake, 0, dict(env), mod, pairs)
            return dict(pairs)
        if isinstance(e, ast.Call):
            return self.call(e, env, mod)
        if isinstance(e, ast.NamedExpr):
            v = self.ev(e.value, env, mod)
            self._bind(e.target, v, env)
            return v
        if isinstance(e, ast.YieldFrom):
            vals = _guard(list, self.ev(e.value, env, mod))
            env.setdefault("__yielded__", []).extend(vals)
            return None
        if isinstance(e, ast.Yield):
            # generator functions are evaluated eagerly: the yielded values are collected in order
            v = self.ev(e.value, env, mod) if e.value is not None else None
            env.setdefault("__yielded__", []).append(v)
            return None
        raise Undecided(f"expression `{norm(e)[:60]}`")

    def _comp(self, e, i, env, mod, out):
        if i == len(e.generators):
            out.append(self.ev(e.elt, env, mod))
            return
        g = e.generators[i]
        it = self.ev(g.iter, env, mod)
        for v in _guard(list, it):
            self._bind(g.target, v, env)
            if all(self.ev(c, env, mod) for c in g.ifs):
                self._comp(e, i + 1, env, mod, out)

    def call(self, e: ast.Call, env, mod):
        name = norm(e.func)
        args = []
        for a in e.args:
            if isinstance(a, ast.Starred):
                args.extend(self.ev(a.value, env, mod))
            else:
                args.append(self.ev(a, env, mod))
        kwargs = {}
        for k in e.keywords:
            if k.arg:
                kwargs[k.arg] = self.ev(k.value, env, mod)
            else:
                kwargs.update(self.ev(k.value, env, mod))
        if name in self.sinks:
            self.sink_calls.append((name, args, kwargs))
            return None
        if name.startswith("super()."):
            return self._super_call(e, env, mod, args, kwargs)
        if name in self.identity:
            return args[0]
        if name == "isinstance":
            typ = args[1]
            if isinstance(args[0], Term):
                names = [str(t).split(".")[-1] for t in (typ if isinstance(typ, tuple) else (typ,)) if isinstance(t, Token)]
                return args[0].name in names
            typs = typ if isinstance(typ, tuple) else (typ,)
            if any(isinstance(t, ClassRef) for t in typs):
                if isinstance(args[0], Obj):
                    return any(isinstance(t, ClassRef) and t.name in args[0].classes for t in typs)
                return any(isinstance(t, type) and isinstance(args[0], t) for t in typs)
            if isinstance(args[0], Obj) and any(isinstance(t, type) for t in typs) and getattr(args[0], "mro", None):
                # stdlib base classes named in the class statements of the MRO (collections.abc.Set as AbstractSet, ...)
                ext = []
                for cdef, cmod in args[0].mro:
                    for b in cdef.bases:
                        bn = norm(b.value if isinstance(b, ast.Subscript) else b)
                        target = getattr(cmod, "imports", {}).get(bn.split(".")[0], bn)
                        real = getattr(collections.abc, target.split(".")[-1], None) if target.startswith("collections.abc") else getattr(_builtins, target, None) if "." not in target else None
                        if isinstance(real, type):
                            ext.append(real)
                if any(isinstance(t, type) and (any(issubclass(x, t) for x in ext) or isinstance(args[0], t)) for t in typs):
                    return True
            if isinstance(args[0], Obj):
                return any(isinstance(t, Token) and str(t).split(".")[-1] in args[0].classes for t in typs)
            if isinstance(typ, Token) or (isinstance(typ, tuple) and any(isinstance(t, Token) for t in typ)):
                return False
            if isinstance(args[0], Token):
                return False
            return _guard(isinstance, args[0], typ)
        if self.ctor_prefixes and name.startswith(self.ctor_prefixes):
            if name.endswith(".parse_expression") and args and isinstance(args[0], str):
                t_ = _expr_to_term(args[0])
                if t_ is not None:
                    return t_
            return Term(name, args, kwargs)
        if name in self.externs:
            return self.externs[name](*args, **kwargs)
        if self.class_resolver is not None:
            mro = self.class_resolver(name, mod)
            if mro:
                return self.instantiate(name.split(".")[-1], mro, args, kwargs)
        if isinstance(e.func, ast.Attribute):
            try:
                recv = self.ev(e.func.value, env, mod)
            except Undecided:
                recv = None
            if isinstance(recv, Obj):
                if e.func.attr in recv.methods:
                    return recv.methods[e.func.attr](*args, **kwargs)
                if e.func.attr == "__class__" and getattr(recv, "mro", None):
                    return self.instantiate(recv.label, recv.mro, args, kwargs)
                f_ = recv.fields.get(e.func.attr)
                if isinstance(f_, Closure):
                    return f_.interp.apply(f_, args, kwargs, mod)
                if callable(f_):
                    return f_(*args, **kwargs)
                raise Raises("AttributeError", f"{recv!r}.{e.func.attr}")
            if isinstance(recv, (list, set, dict)) and e.func.attr in ("append", "remove", "clear", "extend", "add", "discard", "pop", "insert", "update", "sort", "reverse", "setdefault"):
                return _guard(getattr(recv, e.func.attr), *args, **kwargs)
        fval = env.get(name)
        if isinstance(fval, Closure):
            return fval.interp.apply(fval, args, kwargs, mod)
        if callable(fval) and not isinstance(fval, type):
            return fval(*args, **kwargs)
        if name in PURE and not (isinstance(e.func, ast.Name) and e.func.id in env):
            return _guard(PURE[name], *args, **kwargs)
        if self.resolver is not None:
            r = self.resolver(name, mod)
            if r is not None:
                fn, fmod = r
                return self.run_function(fn, args, kwargs, fmod)
        if isinstance(e.func, ast.Attribute) and e.func.attr == "with_changes":
            base = self.ev(e.func.value, env, mod)
            if isinstance(base, Term):
                new = Term(base.name, [], dict(base.fields))
                new.fields.update(kwargs)
                return new
        if isinstance(e.func, ast.Attribute) and e.func.attr in ("search", "match", "fullmatch", "finditer", "findall", "sub", "split", "group", "groups", "start", "end", "span", "groupdict"):
            try:
                base = self.ev(e.func.value, env, mod)
            except Undecided:
                base = None
            if isinstance(base, (re.Pattern, re.Match)):
                return _guard(getattr(base, e.func.attr), *args, **kwargs)
        if isinstance(e.func, ast.Attribute) and e.func.attr in STR_METHODS:
            try:
                base = self.ev(e.func.value, env, mod)
            except Undecided:
                base = None
            if base is not None and not isinstance(base, (Token, Closure)):
                return _guard(getattr(base, e.func.attr), *args, **kwargs)
        if not isinstance(e.func, ast.Name):
            try:
                fv = self.ev(e.func, env, mod)
            except Undecided:
                fv = None
            if isinstance(fv, Closure):
                return fv.interp.apply(fv, args, kwargs, mod)
            if isinstance(fv, ClassRef):
                return self.instantiate(fv.name, fv.mro, args, kwargs)
            if callable(fv) and not isinstance(fv, type):
                return fv(*args, **kwargs)
            if fv in (list, tuple, set, frozenset, dict, int, float, str, bool, bytes):
                return _guard(fv, *args, **kwargs)  # a builtin type obtained as a value, e.g. type(x)(...)
        if isinstance(e.func, ast.Name) and e.func.id == "cls" and isinstance(env.get("cls"), Obj) and getattr(env["cls"], "mro", None):
            # inside a classmethod bound to a representative instance: cls(...) builds a new instance of its class
            proto = env["cls"]
            return self.instantiate(proto.mro[0][0].name, proto.mro, args, kwargs)
        if isinstance(e.func, ast.Name) and isinstance(env.get(e.func.id), ClassRef):
            fv = env[e.func.id]
            return self.instantiate(fv.name, fv.mro, args, kwargs)
        raise Undecided(f"call `{name}`")

    def instantiate(self, name, mro, args, kwargs, init=True):
        """init=False binds methods, properties and class-level fields but does not run __init__ (the caller sets the fields)."""
        obj = Obj(name, classes=[c.name for c, _m in mro])
        obj.mro = mro
        for cdef, cmod in reversed(mro):
            for st in cdef.body:
                if isinstance(st, (ast.FunctionDef,)):
                    decos = [norm(d) for d in st.decorator_list]
                    if "staticmethod" in decos:
                        bound = (lambda fn, fmod: (lambda *a, **k: self.run_function(fn, list(a), k, fmod)))(st, cmod)
                    else:
                        bound = (lambda fn, fmod: (lambda *a, **k: self.run_function(fn, [obj, *a], k, fmod)))(st, cmod)
                    if "property" in decos or any(d.endswith("cached_property") for d in decos):
                        obj.props[st.name] = bound
                        obj.methods.pop(st.name, None)
                    elif any(d.endswith(".setter") for d in decos):
                        obj.setters[st.name] = bound
                    else:
                        obj.methods[st.name] = bound
                        obj.props.pop(st.name, None)
                elif isinstance(st, ast.AnnAssign) and isinstance(st.target, ast.Name) and st.value is not None:
                    try:
                        v = st.value
                        if isinstance(v, ast.Call) and norm(v.func) in ("field", "dataclasses.field"):
                            # dataclass field: a fresh default per instance
                            kw = {k.arg: k.value for k in v.keywords}
                            if "default_factory" in kw:
                                obj.fields[st.target.id] = self.call(ast.Call(func=kw["default_factory"], args=[], keywords=[]), {}, cmod)
                            elif "default" in kw:
                                obj.fields[st.target.id] = self.ev(kw["default"], {}, cmod)
                        else:
                            obj.fields[st.target.id] = self.ev(v, {}, cmod)
                    except Undecided:
                        pass
        if any(d in obj.methods for d in _PROTOCOL_DUNDERS):
            obj.__class__ = ProtoObj
        if not init:
            obj.fields.update(kwargs)
            return obj
        if "__init__" in obj.methods:
            obj.methods["__init__"](*args, **kwargs)
        else:
            names = [st.target.id for cdef, _m in reversed(mro) for st in cdef.body if isinstance(st, ast.AnnAssign) and isinstance(st.target, ast.Name)]
            for n, a in zip(names, args):
                obj.fields[n] = a
            obj.fields.update(kwargs)
        return obj

    def apply(self, clo: Closure, args, kwargs, mod):
        env = dict(clo.env)
        spec = getattr(clo, "argspec", None)
        if spec is None:
            for p, a in zip(clo.params, args):
                env[p] = a
            env.update(kwargs)
        else:
            names = [x.arg for x in [*spec.posonlyargs, *spec.args]]
            defaults = dict(zip(reversed(names), reversed(spec.defaults)))
            for i, n in enumerate(names):
                if i < len(args):
                    env[n] = args[i]
                elif n in kwargs:
                    env[n] = kwargs[n]
                elif n in defaults:
                    env[n] = self.ev(defaults[n], dict(clo.env), mod)
                else:
                    raise Raises("TypeError", f"missing argument `{n}`")
            if spec.vararg is not None:
                env[spec.vararg.arg] = tuple(args[len(names):])
            elif len(args) > len(names):
                raise Raises("TypeError", "too many positional arguments")
            kwonly = [x.arg for x in spec.kwonlyargs]
            for k, d in zip(spec.kwonlyargs, spec.kw_defaults):
                if k.arg in kwargs:
                    env[k.arg] = kwargs[k.arg]
                elif d is not None:
                    env[k.arg] = self.ev(d, dict(clo.env), mod)
            extra = {k: v for k, v in kwargs.items() if k not in names and k not in kwonly}
            if spec.kwarg is not None:
                env[spec.kwarg.arg] = extra
            elif extra:
                raise Raises("TypeError", f"unexpected keyword argument {sorted(extra)[0]!r}")
        if clo.is_lambda:
            return self.ev(clo.body, env, mod)
        try:
            self.block(clo.body, env, mod)
        except _Return as r:
            return r.value
        return None

    def _super_call(self, e, env, mod, args, kwargs):
        """super().method(...) inside a method of an instantiated class."""
        obj = env.get("self")
        if not isinstance(obj, Obj):
            obj = env.get("cls")
        cur = getattr(self, "_fn_stack", [None])[-1]
        if not isinstance(obj, Obj) or not hasattr(obj, "mro") or cur is None:
            raise Undecided("super() outside an interpreted instance method")
        cls = getattr(cur, "_class", None)
        idx = next((i for i, (c, _m) in enumerate(obj.mro) if c is cls), None)
        if idx is None:
            raise Undecided("super(): defining class not in the MRO")
        meth = e.func.attr
        for cdef, cmod in obj.mro[idx + 1:]:
            for st in cdef.body:
                if isinstance(st, ast.FunctionDef) and st.name == meth:
                    return self.run_function(st, [obj, *args], kwargs, cmod)
        if meth == "__init__":
            return None  # object.__init__
        raise Raises("AttributeError", f"super().{meth}")

    def run_function(self, fn, args, kwargs, mod):
        if not hasattr(self, "_fn_stack"):
            self._fn_stack = []
        self._fn_stack.append(fn)
        try:
            return self._run_function(fn, args, kwargs, mod)
        finally:
            self._fn_stack.pop()

    def _run_function(self, fn, args, kwargs, mod):
        env = {}
        a = fn.args
        names = [x.arg for x in [*a.posonlyargs, *a.args]]
        defaults = dict(zip(reversed(names), reversed(a.defaults)))
        for i, n in enumerate(names):
            if i < len(args):
                env[n] = args[i]
            elif n in kwargs:
                env[n] = kwargs[n]
            elif n in defaults:
                env[n] = self.ev(defaults[n], {}, mod)
            elif n in ("self", "cls"):
                env[n] = Token(n)
            else:
                raise Undecided(f"missing argument `{n}` of {fn.name}")
        if a.vararg is not None:
            env[a.vararg.arg] = tuple(args[len(names):])
        if a.kwarg is not None:
            env[a.kwarg.arg] = {k: v for k, v in kwargs.items() if k not in names and k not in [x.arg for x in a.kwonlyargs]}
        for k, d in zip(a.kwonlyargs, a.kw_defaults):
            if k.arg in kwargs:
                env[k.arg] = kwargs[k.arg]
            elif d is not None:
                env[k.arg] = self.ev(d, {}, mod)
        is_gen = any(isinstance(n, (ast.Yield, ast.YieldFrom)) for n in _own_walk(fn))
        if is_gen:
            env["__yielded__"] = []
        try:
            self.block(fn.body, env, mod)
        except _Return as r:
            return env["__yielded__"] if is_gen else r.value
        return env["__yielded__"] if is_gen else None

    # ------------------------------------------------------------------ statements
    def _bind(self, target, value, env):
        if isinstance(target, ast.Name):
            env[target.id] = value
        elif isinstance(target, (ast.Tuple, ast.List)):
            vals = _guard(list, value)
            stars = [i for i, t in enumerate(target.elts) if isinstance(t, ast.Starred)]
            if len(stars) == 1:
                i, after = stars[0], len(target.elts) - stars[0] - 1
                if len(vals) < len(target.elts) - 1:
                    raise Raises("ValueError", "not enough values to unpack")
                for t, v in zip(target.elts[:i], vals[:i]):
                    self._bind(t, v, env)
                self._bind(target.elts[i].value, vals[i:len(vals) - after], env)
                for t, v in zip(target.elts[i + 1:], vals[len(vals) - after:]):
                    self._bind(t, v, env)
                return
            if len(vals) != len(target.elts):
                raise Raises("ValueError", "unpack")
            for t, v in zip(target.elts, vals):
                self._bind(t, v, env)
        elif isinstance(target, ast.Attribute) and isinstance(env.get(norm(target.value)), Obj):
            env[norm(target.value)].fields[target.attr] = value
        elif isinstance(target, ast.Attribute) and isinstance(target.value, ast.Attribute) and isinstance(self._try_ev(target.value, env), Obj):
            self._try_ev(target.value, env).fields[target.attr] = value
        elif isinstance(target, ast.Attribute) and isinstance(target.value, ast.Name) and self.native_types and isinstance(env.get(target.value.id), self.native_types) and not isinstance(env.get(target.value.id), type):
            setattr(env[target.value.id], target.attr, value)  # a representative object of the checker bound to a local
        elif isinstance(target, ast.Attribute) and isinstance(target.value, ast.Name) and target.value.id not in env and isinstance(self._try_ev(target.value, env), ClassRef):
            self.class_store[self._try_ev(target.value, env).name, target.attr] = value
        elif isinstance(target, ast.Subscript) and isinstance(env.get(norm(target.value)), (list, dict)):
            _guard(env[norm(target.value)].__setitem__, self._slice_key(target.slice, env), value)
        elif isinstance(target, ast.Subscript) and isinstance(target.value, ast.Attribute) and isinstance(self._try_ev(target.value, env), (list, dict)):
            _guard(self._try_ev(target.value, env).__setitem__, self._slice_key(target.slice, env), value)
        else:
            env[norm(target)] = value
            if self.on_store is not None:
                self.on_store(norm(target), value)

    def _slice_key(self, sl, env):
        if isinstance(sl, ast.Slice):
            return slice(*(None if x is None else self.ev(x, env) for x in (sl.lower, sl.upper, sl.step)))
        return self.ev(sl, env)

    def _try_ev(self, e, env):
        try:
            return self.ev(e, env, getattr(self, "_cur_mod", None))
        except (Undecided, Raises):
            return None

    def block(self, stmts, env, mod=None):
        for s in stmts:
            self.stmt(s, env, mod)

    def stmt(self, s, env, mod):
        self._cur_mod = mod
        self.steps += 1
        if self.steps > self.max_steps:
            raise Undecided("step budget exhausted")
        if isinstance(s, ast.Expr):
            if isinstance(s.value, ast.Constant):
                return
            if isinstance(s.value, ast.Call):
                ftxt = norm(s.value.func)
                modelled = ftxt in self.externs or any(ftxt.startswith(k + ".") for k in self.consts)  # the checker models this part of logging
                if not modelled and (ftxt.split(".")[0] in ("_LOGGER", "LOGGER", "logging", "_logger") or ftxt.startswith("self._logger")):
                    return
            self.ev(s.value, env, mod)
            return
        if isinstance(s, (ast.Assign, ast.AnnAssign)):
            if s.value is None:
                return
            v = self.ev(s.value, env, mod)
            for tg in s.targets if isinstance(s, ast.Assign) else [s.target]:
                self._bind(tg, v, env)
            return
        if isinstance(s, ast.AugAssign):
            cur = self.ev(s.target, env, mod)
            v = _binop(s.op, cur, self.ev(s.value, env, mod))
            self._bind(s.target, v, env)
            return
        if isinstance(s, ast.If):
            self.block(s.body if self.ev(s.test, env, mod) else s.orelse, env, mod)
            return
        if isinstance(s, ast.Return):
            raise _Return(self.ev(s.value, env, mod) if s.value is not None else None)
        if isinstance(s, ast.Raise):
            if s.exc is None:
                raise Raises(env.get("__active_exc__", "Exception"))
            name = norm(s.exc.func) if isinstance(s.exc, ast.Call) else norm(s.exc)
            raise Raises(name.split(".")[-1])
        if isinstance(s, ast.Assert):
            if not self.ev(s.test, env, mod):
                raise Raises("AssertionError", norm(s.test)[:80])
            return
        if isinstance(s, (ast.Pass, ast.Import, ast.ImportFrom, ast.Global, ast.Nonlocal)):
            return
        if isinstance(s, ast.With):
            for item in s.items:
                if item.optional_vars is None:
                    continue  # context managers without a bound value are transparent to the checks
                try:
                    val = self.ev(item.context_expr, env, mod)
                except Undecided:
                    val = Token(f"<{norm(item.context_expr)[:40]}>")
                if not isinstance(val, (Obj, Token, Term, Closure)) and hasattr(val, "__enter__"):
                    val = _guard(val.__enter__)
                self._bind(item.optional_vars, val, env)
            self.block(s.body, env, mod)
            return
        if isinstance(s, ast.Try):
            try:
                try:
                    self.block(s.body, env, mod)
                except Raises as exc:
                    for h in s.handlers:
                        names = None
                        if h.type is not None:
                            elts = h.type.elts if isinstance(h.type, ast.Tuple) else [h.type]
                            names = {norm(x).split(".")[-1] for x in elts}
                        if names is None or exc_matches(exc.name, names):
                            if h.name:
                                env[h.name] = Token(f"<{exc.name}>")
                            env["__active_exc__"] = exc.name
                            self.block(h.body, env, mod)
                            break
                    else:
                        raise
                else:
                    self.block(s.orelse, env, mod)
            finally:
                if s.finalbody:
                    self.block(s.finalbody, env, mod)
            return
        if isinstance(s, ast.For):
            it = self.ev(s.iter, env, mod)
            broke = False
            # containers whose change during iteration python detects are iterated lazily, everything else is materialised
            lazy = isinstance(it, (dict, set, ProtoObj, type({}.keys()), type({}.values()), type({}.items())))
            seq = iter(it) if lazy else iter(_guard(list, it))
            while True:
                try:
                    v = next(seq)
                except StopIteration:
                    break
                except RuntimeError as exc:
                    raise Raises("RuntimeError", str(exc)) from None
                self._bind(s.target, v, env)
                try:
                    self.block(s.body, env, mod)
                except _Break:
                    broke = True
                    break
                except _Continue:
                    continue
            if not broke:
                self.block(s.orelse, env, mod)
            return
        if isinstance(s, ast.While):
            n = 0
            while self.ev(s.test, env, mod):
                n += 1
                if n > 10000:
                    raise Undecided("loop bound")
                try:
                    self.block(s.body, env, mod)
                except _Break:
                    break
                except _Continue:
                    continue
            return
        if isinstance(s, ast.Delete):
            for tg in s.targets:
                if isinstance(tg, ast.Subscript):
                    base = self.ev(tg.value, env, mod)
                    _guard(base.__delitem__, self.ev(tg.slice, env, mod))
                elif isinstance(tg, ast.Name):
                    env.pop(tg.id, None)
                else:
                    raise Undecided("del target")
            return
        if isinstance(s, ast.Break):
            raise _Break()
        if isinstance(s, ast.Continue):
            raise _Continue()
        if isinstance(s, ast.Match):
            subj = self.ev(s.subject, env, mod)
            for c in s.cases:
                if self._match(c.pattern, subj, env, mod) and (c.guard is None or self.ev(c.guard, env, mod)):
                    self.block(c.body, env, mod)
                    return
            return
        if isinstance(s, (ast.FunctionDef,)):
            clo = Closure([a.arg for a in s.args.args], s.body, env, self, False, mod, argspec=s.args)
            for deco in reversed(s.decorator_list):
                if isinstance(deco, ast.Call) and norm(deco.func) in ("functools.wraps", "wraps"):
                    continue  # metadata only
                clo = self.ev(deco, env, mod)(clo)
            env[s.name] = clo
            return
        raise Undecided(f"statement {type(s).__name__}")

    def _match(self, pat, subj, env, mod) -> bool:
        if isinstance(pat, ast.MatchValue):
            v = self.ev(pat.value, env, mod)
            if isinstance(v, Token) or isinstance(subj, Token):
                return str(v) == str(subj)
            return v == subj
        if isinstance(pat, ast.MatchSingleton):
            return subj is pat.value
        if isinstance(pat, ast.MatchAs):
            if pat.pattern is None:
                if pat.name:
                    env[pat.name] = subj
                return True
            return self._match(pat.pattern, subj, env, mod)
        if isinstance(pat, ast.MatchOr):
            return any(self._match(p, subj, env, mod) for p in pat.patterns)
        if isinstance(pat, ast.MatchSequence):
            if not isinstance(subj, (tuple, list)) or any(isinstance(p, ast.MatchStar) for p in pat.patterns):
                if isinstance(subj, (tuple, list)):
                    raise Undecided("starred sequence pattern")
                return False
            if len(subj) != len(pat.patterns):
                return False
            return all(self._match(p, v, env, mod) for p, v in zip(pat.patterns, subj))
        if isinstance(pat, ast.MatchClass):
            cls = self.ev(pat.cls, env, mod)
            if isinstance(cls, type):
                if not isinstance(subj, cls) or isinstance(subj, (Obj, Term)):
                    return False
                if pat.kwd_patterns or len(pat.patterns) > 1:
                    raise Undecided("class pattern with sub-patterns on a builtin")
                return not pat.patterns or self._match(pat.patterns[0], subj, env, mod)
            if isinstance(cls, ClassRef):
                if not isinstance(subj, Obj) or cls.name not in subj.classes:
                    return False
                names = [st.target.id for cdef, _m in reversed(cls.mro) for st in cdef.body if isinstance(st, ast.AnnAssign) and isinstance(st.target, ast.Name) and not norm(st.annotation).startswith("ClassVar")]
                if len(pat.patterns) > len(names):
                    raise Raises("TypeError", "too many positional sub-patterns")
                for p, n in zip(pat.patterns, names):
                    if n not in subj.fields or not self._match(p, subj.fields[n], env, mod):
                        return False
                for n, p in zip(pat.kwd_attrs, pat.kwd_patterns):
                    if n not in subj.fields or not self._match(p, subj.fields[n], env, mod):
                        return False
                return True
            raise Undecided(f"class pattern `{norm(pat.cls)}`")
        raise Undecided("match pattern")


def _own_walk(fn):
    stack = list(fn.body)
    while stack:
        n = stack.pop()
        yield n
        for c in ast.iter_child_nodes(n):
            if not isinstance(c, (ast.FunctionDef, ast.AsyncFunctionDef, ast.Lambda, ast.ClassDef)):
                stack.append(c)


class _Break(Exception):
    pass


class _Continue(Exception):
    pass


# ---------------------------------------------------------------------- convenience (older call sites)
def ev(e: ast.AST, env: dict):
    return Interp().ev(e, env)


def run_block(stmts, env: dict, on_store=None):
    """('return', v) | ('raise', name) | ('fall', None)"""
    it = Interp(on_store=on_store)
    try:
        it.block(stmts, env)
    except _Return as r:
        return ("return", r.value)
    except Raises as exc:
        return ("raise", exc.name)
    return ("fall", None)


def repo_class_resolver(repo, only=None):
    """Resolve class names of the analysed package to their static MRO [(ClassDef, Module)]."""

    def resolve(name, mod):
        if mod is None:
            return None
        short = name.split(".")[-1]
        if only is not None and short not in only:
            return None
        r = None
        if name in mod.classes:
            r = (mod.name, name)
        else:
            rr = repo.resolve_name(mod, name)
            if rr and rr[0] in repo.modules and rr[1] in repo.modules[rr[0]].classes:
                r = rr
        if r is None:
            return None
        try:
            return [(repo.modules[m].classes[c], repo.modules[m]) for m, c in repo.mro(*r)]
        except Exception:  # noqa: BLE001
            return None

    return resolve


def repo_resolver(repo):
    """Resolve plain names / imported names of functions defined in the analysed package."""

    def resolve(name, mod):
        if mod is None:
            return None
        if name in mod.functions:
            return mod.functions[name], mod
        r = repo.resolve_name(mod, name)
        if r and r[0] in repo.modules and r[1] in repo.modules[r[0]].functions:
            m2 = repo.modules[r[0]]
            return m2.functions[r[1]], m2
        return None

    return resolve
