"""Guard recognition on CFG test edges and interprocedural GUARD-DOM queries.

An *edge formula* is the condition known to hold when a test node is left over its
`true` / `false` edge, in negation normal form.  A guard recogniser classifies the
literals of that formula; an edge *establishes* a guard when the formula is a
disjunction of literals each of which is either a wanted literal or an accepted
bypass literal (and at least one wanted literal occurs) - or, for conjunctions, when one
of the conjuncts does.
"""

from __future__ import annotations

import ast
from typing import Callable

from .cfg import CFG
from .index import last_attr, norm, own_nodes, parent


def nnf(expr: ast.AST, positive: bool = True):
    """('lit', expr, polarity) | ('and', [..]) | ('or', [..])"""
    if isinstance(expr, ast.UnaryOp) and isinstance(expr.op, ast.Not):
        return nnf(expr.operand, not positive)
    if isinstance(expr, ast.BoolOp):
        is_and = isinstance(expr.op, ast.And)
        kind = "and" if (is_and == positive) else "or"
        return (kind, [nnf(v, positive) for v in expr.values])
    if isinstance(expr, ast.Compare) and len(expr.ops) == 1 and not positive:
        flip = {ast.Is: ast.IsNot, ast.IsNot: ast.Is, ast.Eq: ast.NotEq, ast.NotEq: ast.Eq, ast.In: ast.NotIn, ast.NotIn: ast.In,
                ast.Lt: ast.GtE, ast.GtE: ast.Lt, ast.Gt: ast.LtE, ast.LtE: ast.Gt}
        op = type(expr.ops[0])
        if op in flip:
            new = ast.Compare(left=expr.left, ops=[flip[op]()], comparators=expr.comparators)
            return ("lit", new, True)
    return ("lit", expr, positive)


def lit_text(lit) -> str:
    _k, e, pol = lit
    return norm(e) if pol else f"not ({norm(e)})"


def establishes(formula, wanted: Callable, bypass: Callable) -> bool:
    """True if `formula` implies (wanted-literal OR bypass-literal ...)."""
    kind = formula[0]
    if kind == "lit":
        return bool(wanted(formula))
    if kind == "and":
        return any(establishes(f, wanted, bypass) for f in formula[1])
    # or: every disjunct must be wanted/bypass (recursively), at least one wanted
    got = False
    for f in formula[1]:
        if f[0] == "lit" and bypass(f):
            continue
        if establishes(f, wanted, bypass):
            got = True
            continue
        return False
    return got


def guard_edge_set(cfg: CFG, wanted: Callable, bypass: Callable, rewrite: Callable | None = None):
    res = set()
    for n in cfg.nodes:
        if n.kind == "test" and isinstance(n.stmt, (ast.If, ast.While)):
            test = rewrite(n.stmt.test) if rewrite is not None else n.stmt.test
            for lab, pos in (("true", True), ("false", False)):
                if establishes(nnf(test, pos), wanted, bypass):
                    res.add((n.id, lab))
    return res


def inline_predicates(resolve: Callable):
    """A test rewriter for guard queries: a call of a predicate helper - a function whose body is a single
    `return <expression>` (after its docstring) - is replaced by that expression with the arguments substituted, so a
    guard that was moved into a helper establishes the same literals.  `resolve(name)` gives the helper's FunctionDef."""
    def fresh(node: ast.AST) -> ast.AST:
        # nodes of the index carry parent links: a deep copy would drag the whole module along
        return ast.parse(ast.unparse(node), mode="eval").body

    def rewrite(test: ast.AST, depth: int = 0) -> ast.AST:
        class _T(ast.NodeTransformer):
            def visit_Call(self, node):
                self.generic_visit(node)
                if depth > 3 or not isinstance(node.func, ast.Name) or node.keywords:
                    return node
                fn = resolve(node.func.id)
                if fn is None:
                    return node
                body = [s for s in fn.body if not (isinstance(s, ast.Expr) and isinstance(s.value, ast.Constant) and isinstance(s.value.value, str))]
                params = [a.arg for a in fn.args.args]
                if len(body) != 1 or not isinstance(body[0], ast.Return) or body[0].value is None or len(params) != len(node.args) or fn.args.vararg or fn.args.kwarg:
                    return node
                sub = dict(zip(params, node.args))

                class _S(ast.NodeTransformer):
                    def visit_Name(self, n):
                        return fresh(sub[n.id]) if n.id in sub and isinstance(n.ctx, ast.Load) else n

                return rewrite(_S().visit(fresh(body[0].value)), depth + 1)

        return ast.fix_missing_locations(_T().visit(fresh(test)))

    memo: dict[int, tuple[ast.AST, ast.AST]] = {}

    def cached(test: ast.AST) -> ast.AST:
        hit = memo.get(id(test))
        if hit is None or hit[0] is not test:
            hit = memo[id(test)] = (test, rewrite(test))
        return hit[1]

    return cached


def unguarded_path(cfg: CFG, targets, wanted: Callable, bypass: Callable = lambda l: False, extra_avoid_nodes=(), rewrite: Callable | None = None):
    """None if every path entry -> target passes an establishing edge; else a witness path."""
    ge = guard_edge_set(cfg, wanted, bypass, rewrite)
    return cfg.path([cfg.entry], targets, avoid_edges=lambda s, d, lab: (s, lab) in ge, avoid_nodes=extra_avoid_nodes)


def contains_call(expr: ast.AST, method: str) -> bool:
    return any(isinstance(n, ast.Call) and last_attr(n) == method for n in ast.walk(expr))


def stmt_cfg_nodes(cfg: CFG, node: ast.AST) -> list[int]:
    """CFG nodes of the statement that contains `node` (header nodes for compound statements)."""
    n = node
    while n is not None:
        ids = cfg.nodes_of(n)
        if ids:
            return ids
        n = parent(n)
    return []


class CallIndex:
    """Name-based call index over a set of functions: callee simple name -> [(caller fn, call node)].

    Also records functions stored in class-level dispatch dicts (`METHODS = {ops: Class.method}`)
    and treats `method(self, ...)` calls inside a loop over `<x>.METHODS.items()` as calls of them.
    """

    def __init__(self, functions, repo=None):
        self.repo = repo
        self.functions = list(functions)
        self.calls: dict[str, list[tuple[ast.AST, ast.Call]]] = {}
        self.dispatch_members: set[tuple[str, str]] = set()  # (class qualname, method name)
        self.dispatch_sites: list[tuple[ast.AST, ast.Call]] = []
        for fn in self.functions:
            cls = getattr(fn, "_class", None)
            for n in own_nodes(fn):
                if isinstance(n, ast.Call):
                    name = last_attr(n)
                    if name:
                        self.calls.setdefault(name, []).append((fn, n))
            # dispatch loops
            for n in own_nodes(fn):
                if isinstance(n, ast.For) and "METHODS" in norm(n.iter):
                    tnames = {x.id for x in ast.walk(n.target) if isinstance(x, ast.Name)}
                    for c in ast.walk(n):
                        if isinstance(c, ast.Call) and isinstance(c.func, ast.Name) and c.func.id in tnames:
                            self.dispatch_sites.append((fn, c))
        seen_cls = set()
        for fn in self.functions:
            cls = getattr(fn, "_class", None)
            if cls is None or id(cls) in seen_cls:
                continue
            seen_cls.add(id(cls))
            for s in cls.body:
                val = None
                if isinstance(s, ast.Assign) and any(isinstance(t, ast.Name) and t.id == "METHODS" for t in s.targets):
                    val = s.value
                elif isinstance(s, ast.AnnAssign) and isinstance(s.target, ast.Name) and s.target.id == "METHODS":
                    val = s.value
                if val is None:
                    continue
                vals = val.values if isinstance(val, ast.Dict) else [val]
                for v in vals:
                    if isinstance(v, ast.Attribute):
                        self.dispatch_members.add((cls.name, v.attr))
                    elif isinstance(v, ast.Name):
                        self.dispatch_members.add((cls.name, v.id))

    def _related(self, a, b) -> bool:
        """Classes a and b (ClassDef or None) are the same or related by static inheritance."""
        if a is None or b is None:
            return True
        if a is b or a.name == b.name:
            return True
        if self.repo is None:
            return True
        try:
            ma = self.repo.mro(a._module.name, a._qualname)
            mb = self.repo.mro(b._module.name, b._qualname)
        except Exception:  # noqa: BLE001
            return True
        return (b._module.name, b._qualname) in ma or (a._module.name, a._qualname) in mb

    def callers(self, fn) -> list[tuple[ast.AST, ast.Call]]:
        fcls = getattr(fn, "_class", None)
        out = []
        for f, c in self.calls.get(fn.name, []):
            if f is fn:
                continue
            recv = norm(c.func.value) if isinstance(c.func, ast.Attribute) else ""
            if recv in ("self", "cls", "super()") and not self._related(getattr(f, "_class", None), fcls):
                continue
            out.append((f, c))
        if fcls is not None and any(m == fn.name for _c, m in self.dispatch_members):
            for f, c in self.dispatch_sites:
                if f is not fn and self._related(getattr(f, "_class", None), fcls):
                    out.append((f, c))
        return out


def interproc_guarded(site_fn, site_node, cidx: CallIndex, wanted, bypass, cfg_cache: dict, depth: int = 4, _seen=None):
    """Return None if the site is guarded in its own function or in every (transitive) caller;
    otherwise a list of strings describing an unguarded call chain."""
    _seen = _seen or set()
    key = (id(site_fn), id(site_node))
    if key in _seen:
        return None
    _seen = _seen | {key}
    cfg = cfg_cache.get(id(site_fn))
    if cfg is None:
        cfg = cfg_cache[id(site_fn)] = CFG(site_fn)
    targets = stmt_cfg_nodes(cfg, site_node)
    if not targets:
        return [f"{getattr(site_fn, '_qualname', site_fn.name)}: site not in CFG"]
    p = unguarded_path(cfg, targets, wanted, bypass)
    if p is None:
        return None
    here = f"{site_fn._module.name}:{getattr(site_fn, '_qualname', site_fn.name)} L{getattr(site_node, 'lineno', '?')} reachable without the guard"
    callers = cidx.callers(site_fn)
    if not callers or depth == 0:
        return [here]
    for cf_, call in callers:
        sub = interproc_guarded(cf_, call, cidx, wanted, bypass, cfg_cache, depth - 1, _seen)
        if sub is not None:
            return [here, *sub]
    return None
