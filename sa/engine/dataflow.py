"""Small forward dataflow analyses over sa.engine.cfg.CFG."""

from __future__ import annotations

import ast
from collections import deque

from .cfg import CFG, edge_implies
from .index import norm

MATERIALISERS = {"set", "tuple", "list", "frozenset", "sorted", "dict.fromkeys", "cls", "self.__class__", "OrderedSet", "FrozenOrderedSet", "OrderedTypeSet"}
NON_CONSUMING_CALLS = {"isinstance", "len", "id", "type", "callable", "hasattr"}
REITERABLE_TYPES = {"Collection", "AbstractSet", "Set", "Sequence", "Sized", "Mapping", "list", "tuple", "set", "frozenset", "dict", "_AbstractOrderedSet", "OrderedSet", "FrozenOrderedSet"}

MAT = -1  # the name now refers to a re-iterable container


def node_exprs(n):
    """The expressions evaluated *at* a CFG node (not the bodies of compound statements)."""
    s = n.stmt
    if s is None:
        return []
    if n.kind == "test":
        return [s.test]
    if n.kind == "for_iter":
        return [s.iter]
    if n.kind == "with":
        return [i.context_expr for i in s.items]
    if n.kind == "match":
        return [s.subject]
    if n.kind == "handler":
        return [s.type] if s.type is not None else []
    if n.kind == "case":
        return [s.guard] if s.guard is not None else []
    if n.kind == "stmt":
        if isinstance(s, (ast.FunctionDef, ast.AsyncFunctionDef, ast.ClassDef)):
            return list(s.decorator_list)
        return [s]
    return []


def _consumptions(expr: ast.AST, name) -> int:
    """Number of consuming uses of `name` in expr; a use inside a comprehension body that is
    re-evaluated per element of another iterable counts as 2 (many)."""
    total = 0
    names = {name} if isinstance(name, str) else set(name)

    def rec(e, mult):
        nonlocal total
        if isinstance(e, ast.Name):
            if e.id in names and isinstance(e.ctx, ast.Load):
                total += mult
            return
        if isinstance(e, ast.Call):
            fn = norm(e.func)
            if fn in NON_CONSUMING_CALLS:
                # first arg is not consumed
                for a in e.args[1:]:
                    rec(a, mult)
                return
            rec(e.func, mult)
            for a in e.args:
                rec(a.value if isinstance(a, ast.Starred) else a, mult)
            for k in e.keywords:
                rec(k.value, mult)
            return
        if isinstance(e, ast.Compare) and all(isinstance(o, (ast.Is, ast.IsNot)) for o in e.ops):
            return
        if isinstance(e, (ast.ListComp, ast.SetComp, ast.GeneratorExp, ast.DictComp)):
            gens = e.generators
            shadow = any(names & {x.id for x in ast.walk(g.target) if isinstance(x, ast.Name)} for g in gens)
            # first iterable is evaluated once in the enclosing scope
            rec(gens[0].iter, mult)
            if shadow:
                return
            inner = 2
            for g in gens[1:]:
                rec(g.iter, inner)
            for g in gens:
                for c in g.ifs:
                    rec(c, inner)
            if isinstance(e, ast.DictComp):
                rec(e.key, inner)
                rec(e.value, inner)
            else:
                rec(e.elt, inner)
            return
        if isinstance(e, ast.Lambda):
            return
        for c in ast.iter_child_nodes(e):
            rec(c, mult)

    rec(expr, 1)
    return total


def once_analysis(cfg: CFG, name: str, *, reset_for_over: str | None = None):
    """Max number of consumptions of one-shot iterable `name` on any path.

    Returns (worst_count, node_id_where_reached).  `reset_for_over`: a `for <name> in <that>`
    statement rebinds the name to a fresh one-shot element (varargs of iterables).
    """
    # plain aliases `x = <name>` refer to the same one-shot object
    names = {name}
    alias_stmts = set()
    changed = True
    while changed:
        changed = False
        for n_ in cfg.nodes:
            s_ = n_.stmt
            if n_.kind == "stmt" and isinstance(s_, ast.Assign) and isinstance(s_.value, ast.Name) and s_.value.id in names:
                for t_ in s_.targets:
                    if isinstance(t_, ast.Name) and t_.id not in names:
                        names.add(t_.id)
                        changed = True
                alias_stmts.add(id(s_))
    state: dict[int, int] = {cfg.entry: 0}
    dq = deque([cfg.entry])
    worst = (0, None)

    def join(a, b):
        if a is None:
            return b
        if a == MAT:
            return b
        if b == MAT:
            return a
        return max(a, b)

    out_state: dict[tuple[int, int, str], int] = {}
    while dq:
        nid = dq.popleft()
        n = cfg.nodes[nid]
        cur = state[nid]
        new = cur
        s = n.stmt
        exprs = node_exprs(n)
        if cur != MAT:
            add = 0
            for e in exprs:
                if id(e) in alias_stmts:
                    continue
                if n.kind == "stmt" and isinstance(e, (ast.Assign, ast.AugAssign, ast.AnnAssign)):
                    val = e.value
                    if val is not None:
                        add += _consumptions(val, names)
                else:
                    add += _consumptions(e, names)
            new = min(2, cur + add)
            if new >= 2 and worst[0] < 2:
                worst = (new, nid)
            elif new > worst[0]:
                worst = (new, nid)
        # rebinding
        if n.kind == "stmt" and isinstance(s, (ast.Assign, ast.AnnAssign)):
            targets = s.targets if isinstance(s, ast.Assign) else [s.target]
            if any(isinstance(t, ast.Name) and t.id == name for t in targets) and id(s) not in alias_stmts:
                new = MAT
        if n.kind == "for" and isinstance(s.target, ast.Name) and s.target.id == name:
            new = 0 if (reset_for_over and norm(s.iter) == reset_for_over) else MAT
        if n.kind == "with":
            for it in s.items:
                if isinstance(it.optional_vars, ast.Name) and it.optional_vars.id == name:
                    new = MAT
        for b, lab in cfg.succ[nid]:
            val = new
            if n.kind == "test" and lab in ("true", "false"):
                for atom, truth in edge_implies(s.test, lab == "true"):
                    if truth and isinstance(atom, ast.Call) and norm(atom.func) == "isinstance" and len(atom.args) == 2 and norm(atom.args[0]) == name:
                        types = atom.args[1].elts if isinstance(atom.args[1], ast.Tuple) else [atom.args[1]]
                        if all(norm(t).split(".")[-1] in REITERABLE_TYPES for t in types):
                            val = MAT
            if lab == "exc":
                val = new
            old = state.get(b)
            j = join(old, val) if old is not None else val
            if old is None or j != old:
                state[b] = j
                dq.append(b)
    return worst
