"""Alpha-equivalence of functions to a recorded reference.

Rules of the checks name locals of the analysed functions (`changed`, `distance_true`, `state` ...).  A
change that only renames locals leaves every property untouched, so it must not change a verdict.  For each
function of the analysed package `sa/alpha_reference.json` records (a) a hash of the function with its locals
erased and (b) the names of the locals in order of first occurrence.  When a function of the tree under
analysis has the same erased shape, its locals are renamed back to the recorded names before any rule looks
at it; when the shape differs (the function was really edited) nothing is renamed and the rules see the code
as it is.  The reference only ever removes spurious differences; it is regenerated with
`tools/gen_alpha_reference.py` after a repair in /repo.
"""

from __future__ import annotations

import ast
import hashlib
import json
from pathlib import Path

REFERENCE = Path(__file__).resolve().parents[1] / "alpha_reference.json"
_SCOPES = (ast.FunctionDef, ast.AsyncFunctionDef, ast.Lambda, ast.ClassDef)


def _own(fn):
    stack = list(ast.iter_child_nodes(fn))
    while stack:
        n = stack.pop(0)
        yield n
        if not isinstance(n, _SCOPES):
            stack[0:0] = list(ast.iter_child_nodes(n))


def _locals(fn) -> list[str]:
    """Locals bound in fn's own scope, in source order of first binding; names rebound in a nested scope are left out."""
    a = fn.args
    params = {x.arg for x in [*a.posonlyargs, *a.args, *a.kwonlyargs]} | ({a.vararg.arg} if a.vararg else set()) | ({a.kwarg.arg} if a.kwarg else set())
    blocked = set(params)
    order: list[tuple[int, int, str]] = []
    for n in _own(fn):
        if isinstance(n, (ast.Global, ast.Nonlocal)):
            blocked |= set(n.names)
        elif isinstance(n, ast.Name) and isinstance(n.ctx, ast.Store):
            order.append((n.lineno, n.col_offset, n.id))
        elif isinstance(n, ast.ExceptHandler) and n.name:
            order.append((n.lineno, n.col_offset, n.name))
        elif isinstance(n, (ast.Import, ast.ImportFrom)):
            blocked |= {(x.asname or x.name).split(".")[0] for x in n.names}
        elif isinstance(n, (ast.MatchAs, ast.MatchStar)) and n.name:
            blocked.add(n.name)
        elif isinstance(n, ast.MatchMapping) and n.rest:
            blocked.add(n.rest)
        elif isinstance(n, (ast.FunctionDef, ast.AsyncFunctionDef, ast.ClassDef)):
            blocked.add(n.name)
        if isinstance(n, _SCOPES):
            for m in ast.walk(n):
                if isinstance(m, ast.arg):
                    blocked.add(m.arg)
                elif isinstance(m, ast.Name) and isinstance(m.ctx, ast.Store):
                    blocked.add(m.id)
                elif isinstance(m, (ast.Global, ast.Nonlocal)):
                    blocked |= set(m.names)
    seen, out = set(), []
    for _l, _c, name in sorted(order):
        if name not in blocked and name not in seen and not name.startswith("__"):
            seen.add(name)
            out.append(name)
    return out


def _rename(fn, mapping: dict[str, str]) -> None:
    for n in ast.walk(fn):
        if isinstance(n, ast.Name) and n.id in mapping:
            n.id = mapping[n.id]
        elif isinstance(n, ast.ExceptHandler) and n.name in mapping:
            n.name = mapping[n.name]


def _shape_hash(fn, index: dict[str, int]) -> str:
    """Hash of the function with its locals replaced by their position, its own name, decorators and docstrings ignored
    (one pass, no copy)."""
    h = hashlib.sha1()
    up = h.update
    stack = [fn]
    while stack:
        n = stack.pop()
        if isinstance(n, ast.AST):
            up(type(n).__name__.encode())
            for fname, value in ast.iter_fields(n):
                if n is fn and fname in ("name", "decorator_list"):
                    continue
                if isinstance(n, ast.Name) and fname == "id" and value in index:
                    up(b"#%d" % index[value])
                    continue
                if isinstance(n, ast.ExceptHandler) and fname == "name" and value in index:
                    up(b"#%d" % index[value])
                    continue
                if isinstance(n, ast.Expr) and isinstance(n.value, ast.Constant) and isinstance(n.value.value, str):
                    up(b"<doc>")
                    break
                up(fname.encode())
                if isinstance(value, list):
                    up(b"[%d" % len(value))
                    stack.extend(reversed(value))
                elif isinstance(value, ast.AST):
                    stack.append(value)
                else:
                    up(repr(value).encode())
        else:
            up(repr(n).encode())
    return h.hexdigest()


def signature(fn) -> tuple[str, list[str]]:
    names = _locals(fn)
    return _shape_hash(fn, {n: i for i, n in enumerate(names)}), names


def functions(tree: ast.Module):
    """(qualname, FunctionDef) for module-level functions, methods and nested functions."""
    def rec(node, prefix):
        for child in ast.iter_child_nodes(node):
            if isinstance(child, (ast.FunctionDef, ast.AsyncFunctionDef)):
                yield f"{prefix}{child.name}", child
                yield from rec(child, f"{prefix}{child.name}.<locals>.")
            elif isinstance(child, ast.ClassDef):
                yield from rec(child, f"{prefix}{child.name}.")
            elif not isinstance(child, ast.Lambda):
                yield from rec(child, prefix)

    yield from rec(tree, "")


_REF = None


def reference() -> dict:
    global _REF
    if _REF is None:
        try:
            _REF = json.loads(REFERENCE.read_text())
        except (OSError, ValueError):
            _REF = {}
    return _REF


def normalise(module_name: str, tree: ast.Module) -> int:
    """Rename the locals of every function that is alpha-equivalent to its reference; returns how many functions were renamed."""
    ref = reference().get(module_name)
    if not ref:
        return 0
    done = 0
    # innermost first, so that the hash of an outer function is computed on normalised inner functions
    for qn, fn in sorted(functions(tree), key=lambda x: -x[0].count(".<locals>.")):
        entries = ref.get(qn)
        if not entries:
            continue
        names = _locals(fn)
        entries = entries if isinstance(entries, list) else [entries]
        if any(entry["locals"] == names for entry in entries):
            continue  # the locals carry the recorded names: nothing to undo
        h = _shape_hash(fn, {n: i for i, n in enumerate(names)})
        for entry in entries:
            if entry["hash"] == h and len(entry["locals"]) == len(names):
                # two-step renaming keeps swaps (a <-> b) correct
                _rename(fn, {n: f"\x00T{i}" for i, n in enumerate(names)})
                _rename(fn, {f"\x00T{i}": r for i, r in enumerate(entry["locals"])})
                done += 1
                break
    return done
