"""Findings, obligations, known-findings matching, evidence and exit codes."""

from __future__ import annotations

import ast
import hashlib
import json
import os
import re
import time
from dataclasses import dataclass, field
from pathlib import Path

from .index import AnalysisError, Module, Repo, head, module_of, qualname

VERIF = Path(__file__).resolve().parents[2]
KNOWN_FILE = VERIF / "known_findings.json"


@dataclass
class Finding:
    property: str
    rule: str
    module: str
    construct: str  # qualified function / class / constant
    stmt: str  # normalised statement text ('' if the construct itself)
    message: str
    file: str = ""
    line: int = 0
    path: list[str] = field(default_factory=list)

    @property
    def key(self) -> str:
        return f"{self.rule}|{self.module}|{self.construct}|{self.stmt}"

    def to_json(self) -> dict:
        return {
            "property": self.property,
            "rule": self.rule,
            "module": self.module,
            "construct": self.construct,
            "stmt": self.stmt,
            "message": self.message,
            "file": self.file,
            "line": self.line,
            "path": self.path,
            "key": self.key,
        }


class Ctx:
    """Collects obligations and findings of one property run."""

    def __init__(self, prop: str, repo: Repo, tier: str):
        self.prop = prop
        self.repo = repo
        self.tier = tier
        self.findings: list[Finding] = []
        self.obligations = 0
        self.discharged = 0
        self.undecided: list[str] = []
        self.observations: list[str] = []
        self.samples: list[str] = []
        self.rule_counts: dict[str, int] = {}
        self.rule_floor: dict[str, int] = {}
        self.functions: set[str] = set()
        self.call_sites = 0
        self.paths = 0
        self.constructs: set[str] = set()
        self.rule_text: dict[str, str] = {}
        self.extra: dict = {}

    # --------------------------------------------------------------- bookkeeping
    def rule(self, rule: str, text: str, floor: int = 1) -> None:
        """Declare a rule with the minimum number of instances confirmed by hand."""
        self.rule_text[rule] = text
        self.rule_floor[rule] = floor
        self.rule_counts.setdefault(rule, 0)

    def analysed(self, fn: ast.AST) -> None:
        try:
            self.functions.add(f"{module_of(fn).name}:{qualname(fn)}")
        except AttributeError:
            pass

    def _loc(self, node: ast.AST | None):
        if node is None:
            return "", "", "", 0
        try:
            mod: Module = module_of(node)
        except AttributeError:
            return "", "", "", getattr(node, "lineno", 0)
        fn = node if isinstance(node, (ast.FunctionDef, ast.AsyncFunctionDef, ast.ClassDef)) else getattr(node, "_func", None)
        if fn is not None:
            construct = qualname(fn)
        else:
            cls = getattr(node, "_class", None)
            construct = qualname(cls) if cls is not None else "<module>"
        return mod.name, construct, mod.relpath, getattr(node, "lineno", 0)

    def ok(self, rule: str, node: ast.AST | None, what: str = "") -> None:
        self.obligations += 1
        self.discharged += 1
        self.rule_counts[rule] = self.rule_counts.get(rule, 0) + 1
        m, c, f, l = self._loc(node)
        key = f"{rule}|{m}|{c}|{head(node) if node is not None and not isinstance(node, (ast.FunctionDef, ast.AsyncFunctionDef, ast.ClassDef)) else ''}|{what}"
        self.constructs.add(key)
        if len(self.samples) < 12 and (what or node is not None):
            self.samples.append(f"{rule}: OK {f}:{l} {c} :: {what or head(node)}")

    def fail(
        self,
        rule: str,
        node: ast.AST | None,
        message: str,
        *,
        construct: str | None = None,
        stmt: str | None = None,
        path: list[str] | None = None,
        module: str | None = None,
    ) -> None:
        self.obligations += 1
        self.rule_counts[rule] = self.rule_counts.get(rule, 0) + 1
        m, c, f, l = self._loc(node)
        if stmt is None:
            if node is None or isinstance(node, (ast.FunctionDef, ast.AsyncFunctionDef, ast.ClassDef)):
                stmt = ""
            else:
                stmt = head(node, 200)
        fd = Finding(
            property=self.prop,
            rule=rule,
            module=module or m,
            construct=construct or c,
            stmt=stmt,
            message=message,
            file=f,
            line=l,
            path=path or [],
        )
        self.constructs.add(fd.key)
        self.findings.append(fd)

    def check(self, rule: str, node, cond: bool, message: str, what: str = "", **kw) -> bool:
        if cond:
            self.ok(rule, node, what)
        else:
            self.fail(rule, node, message, **kw)
        return cond

    def undecide(self, rule: str, node: ast.AST | None, why: str) -> None:
        m, c, f, l = self._loc(node)
        self.rule_counts[rule] = self.rule_counts.get(rule, 0)  # does not count towards floor
        self.undecided.append(f"{rule}: {f}:{l} {c}: {why}")

    def observe(self, text: str) -> None:
        self.observations.append(text)


def load_known() -> dict:
    if not KNOWN_FILE.exists():
        return {"known": [], "fixed": []}
    return json.loads(KNOWN_FILE.read_text())


def finish(ctx: Ctx, started: float, selftest: dict | None = None, write_evidence: bool = True, evidence_dir: Path | None = None) -> int:
    """Match findings against the known list, print lines, write evidence, return exit code."""
    # floors (a vacuous rule fails the run as analysis-broken - unless another rule reports a violation, which is the stronger verdict)
    fired = {fd.rule for fd in ctx.findings}
    floor_error = None
    for rule, floor in ctx.rule_floor.items():
        got = ctx.rule_counts.get(rule, 0)
        if rule in fired:
            continue  # a rule that reports a finding is not vacuous (an enumeration may stop at its first finding)
        if got < floor and floor_error is None:
            floor_error = f"rule {rule} matched {got} instance(s), fewer than the {floor} confirmed by reading: the rule would pass vacuously"
    known = load_known()
    known_keys = {k["key"]: k for k in known.get("known", []) if k.get("property") == ctx.prop}
    ev_dir = evidence_dir or (VERIF / "evidence")
    replay_dir = ev_dir / "replay"
    new, listed = [], []
    seen = set()
    for fd in ctx.findings:
        if fd.key in seen:
            continue
        seen.add(fd.key)
        (listed if fd.key in known_keys else new).append(fd)
    for fd in listed:
        print(f"KNOWN-FINDING: property={ctx.prop} {fd.rule} {fd.module}:{fd.construct} :: {fd.stmt or '-'} :: {known_keys[fd.key].get('what', fd.message)}")
    for fd in new:
        replay_dir.mkdir(parents=True, exist_ok=True)
        h = hashlib.sha1(fd.key.encode()).hexdigest()[:10]
        rp = replay_dir / f"{ctx.prop}-{fd.rule.replace('.', '_')}-{h}.json"
        rp.write_text(json.dumps(fd.to_json(), indent=1))
        print(f"FINDING {fd.rule} {fd.file}:{fd.line} {fd.construct} :: {fd.stmt or '-'} :: {fd.message}")
        for step in fd.path[:40]:
            print(f"    via {step}")
        print(f"VIOLATION property={ctx.prop} replay={rp}")
    for u in ctx.undecided[:20]:
        print(f"UNDECIDED {u}")
    if floor_error is not None:
        if not new:
            raise AnalysisError(floor_error)
        print(f"NOTE {floor_error}")
    wall = time.time() - started
    coverage = {
        "explanation": (
            "Static analysis of /repo/src/pynguin as found on disk (ast + statement CFG with exceptional edges + "
            "static MRO / call resolution). Each obligation is one instance of a rule (a call site, a path query, a "
            "table row, a dataclass field). Decides the structural clause named in MANIFEST level_claimed.text; "
            "it does not execute pynguin and does not decide the value-level remainder of the property."
        ),
        "rules": ctx.rule_text,
        "rule_instances": ctx.rule_counts,
        "rule_floors": ctx.rule_floor,
        "obligations": ctx.obligations,
        "discharged": ctx.discharged,
        "undecided": ctx.undecided,
        "observations": ctx.observations,
        "functions_analysed": len(ctx.functions),
        "functions": sorted(ctx.functions)[:200],
        "call_sites": ctx.call_sites,
        "paths": ctx.paths,
        "known_findings": [fd.to_json() for fd in listed],
        "new_findings": [fd.to_json() for fd in new],
        "evaluations": max(ctx.obligations, 1),
        "distinct_nontrivial": len(ctx.constructs),
        "rule": "one evaluation per rule instance found in the source tree; distinct = distinct (rule, module, construct, statement) keys; "
        "an instance is non-trivial when it names a concrete construct of the analysed tree",
        "samples": ctx.samples[:12] or ["(no instance)"],
        "checker_cmd": f"/venv/bin/python -m sa.run {ctx.prop} --tier {ctx.tier}",
        "trusted_base": ["python ast", "statement CFG builder sa/engine/cfg.py", "static MRO sa/engine/index.py"],
        "tree_digest": ctx.repo.digest,
        "repo_root": str(ctx.repo.root),
        "exhaustive": True,
    }
    coverage.update(ctx.extra)
    if selftest is not None:
        coverage["selftest"] = selftest
    evidence = {
        "property_id": ctx.prop,
        "tier": ctx.tier,
        "seed": int(os.environ.get("VERIF_SEED", "0") or 0),
        "level": "other",
        "coverage": coverage,
        "assumptions": [
            "only src/pynguin is analysed; third-party libraries (bytecode, libcst, networkx) behave as documented",
            "dynamic dispatch is resolved through the static class hierarchy; monkey patching is out of scope",
        ],
        "wall_s": round(wall, 3),
        "violations": len(new),
    }
    if write_evidence:
        ev_dir.mkdir(parents=True, exist_ok=True)
        (ev_dir / f"{ctx.prop}.json").write_text(json.dumps(evidence, indent=1, default=str))
    print(
        f"{ctx.prop} tier={ctx.tier} obligations={ctx.obligations} discharged={ctx.discharged} "
        f"known={len(listed)} new={len(new)} undecided={len(ctx.undecided)} functions={len(ctx.functions)} wall={wall:.2f}s"
    )
    return 1 if new else 0
