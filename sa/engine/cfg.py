"""Statement-level control-flow graph with exceptional edges for one function.

Nodes are statements (compound statements are represented by their header: the
test of an `if`/`while`, the iterator step of a `for`, the context entry of a
`with`, the subject of a `match`).  `finally` bodies (and the implicit exit of a
`with`) are duplicated per continuation so that every path is explicit.

Edge labels: next, true, false, body, exhausted, case, nomatch, exc, return,
break, continue.
"""

from __future__ import annotations

import ast
from collections import deque
from dataclasses import dataclass, field

from .index import norm

SUPPRESSING_CMS = ("suppress", "contextlib.suppress", "pytest.raises")


@dataclass
class Node:
    id: int
    kind: str  # entry | exit | raise | stmt | test | for | with | with_exit | handler | match | case | finally_enter
    stmt: ast.AST | None = None
    copy_of: str = ""  # continuation tag for duplicated finally bodies

    def __hash__(self):
        return self.id

    def __repr__(self):
        line = getattr(self.stmt, "lineno", "-")
        return f"<{self.id}:{self.kind}@{line}>"


def _simple_expr(e: ast.AST | None) -> bool:
    if e is None:
        return True
    if isinstance(e, (ast.Name, ast.Constant)):
        return True
    if isinstance(e, ast.Attribute):
        return _simple_expr(e.value)
    if isinstance(e, (ast.Tuple, ast.List)):
        return all(_simple_expr(x) for x in e.elts)
    if isinstance(e, ast.UnaryOp) and isinstance(e.op, ast.Not):
        return _simple_expr(e.operand)
    if isinstance(e, ast.BoolOp):
        return all(_simple_expr(v) for v in e.values)
    if isinstance(e, ast.Compare):
        return all(isinstance(o, (ast.Is, ast.IsNot)) for o in e.ops) and _simple_expr(e.left) and all(
            _simple_expr(c) for c in e.comparators
        )
    return False


def may_raise(stmt: ast.AST) -> bool:
    if isinstance(stmt, (ast.Pass, ast.Break, ast.Continue, ast.Global, ast.Nonlocal)):
        return False
    if isinstance(stmt, (ast.FunctionDef, ast.AsyncFunctionDef, ast.ClassDef)):
        return bool(stmt.decorator_list)
    if isinstance(stmt, ast.Return):
        return not _simple_expr(stmt.value)
    if isinstance(stmt, ast.Expr):
        return not _simple_expr(stmt.value)
    if isinstance(stmt, ast.Assign):
        return not (_simple_expr(stmt.value) and all(isinstance(t, (ast.Name, ast.Attribute)) and _simple_expr(t) for t in stmt.targets))
    if isinstance(stmt, ast.AnnAssign):
        return not (_simple_expr(stmt.value) and _simple_expr(stmt.target))
    return True


@dataclass
class _Frame:
    kind: str  # loop | try | finally | with
    node: ast.AST
    break_to: int | None = None
    continue_to: int | None = None
    handlers: list[int] = field(default_factory=list)
    catch_all: bool = False
    cache: dict = field(default_factory=dict)
    suppress: bool = False
    after: int | None = None


class CFG:
    def __init__(self, fn: ast.AST):
        self.fn = fn
        self.nodes: list[Node] = []
        self.succ: dict[int, list[tuple[int, str]]] = {}
        self.pred: dict[int, list[tuple[int, str]]] = {}
        self.entry = self._new("entry").id
        self.exit = self._new("exit").id
        self.raise_exit = self._new("raise").id
        self._frames: list[_Frame] = []
        self.by_stmt: dict[int, list[int]] = {}
        body = fn.body if hasattr(fn, "body") else []
        ends = self._block(body, [(self.entry, "next")])
        for src, lab in ends:
            self._edge(src, self.exit, lab)

    # ---------------------------------------------------------------- construction
    def _new(self, kind: str, stmt: ast.AST | None = None, copy_of: str = "") -> Node:
        n = Node(len(self.nodes), kind, stmt, copy_of)
        self.nodes.append(n)
        self.succ[n.id] = []
        self.pred[n.id] = []
        if stmt is not None:
            self.by_stmt.setdefault(id(stmt), []).append(n.id)
        return n

    def _edge(self, a: int, b: int, label: str) -> None:
        if (b, label) not in self.succ[a]:
            self.succ[a].append((b, label))
            self.pred[b].append((a, label))

    def _connect(self, ins, node_id: int) -> None:
        for src, lab in ins:
            self._edge(src, node_id, lab)

    def _block(self, stmts, ins):
        """Build a statement list. `ins` = list of (src, label) dangling edges. Returns dangling outs."""
        cur = ins
        for s in stmts:
            if not cur:
                # unreachable code after return/raise/continue: still build it (detached)
                cur = []
            cur = self._stmt(s, cur)
        return cur

    def _route(self, src: int, kind: str, label: str) -> None:
        """Route a non-local jump (return / break / continue / exc) from `src` outward."""
        frames = self._frames
        self._route_from(src, kind, label, len(frames) - 1)

    def _route_from(self, src: int, kind: str, label: str, idx: int) -> None:
        frames = self._frames
        i = idx
        while i >= 0:
            fr = frames[i]
            if fr.kind == "loop" and kind in ("break", "continue"):
                tgt = fr.break_to if kind == "break" else fr.continue_to
                self._edge(src, tgt, label)
                return
            if fr.kind == "try" and kind == "exc":
                for h in fr.handlers:
                    self._edge(src, h, label)
                if fr.catch_all:
                    return
            if fr.kind in ("finally", "with"):
                # pass through a copy of the finally body / the with exit
                key = (kind, i)
                entry_exit = fr.cache.get(key)
                if entry_exit is None:
                    saved = self._frames
                    self._frames = frames[:i]
                    if fr.kind == "finally":
                        fe = self._new("finally_enter", fr.node, copy_of=kind)
                        outs = self._block(fr.node.finalbody, [(fe.id, "next")])
                        entry = fe.id
                    else:
                        we = self._new("with_exit", fr.node, copy_of=kind)
                        entry = we.id
                        outs = [(we.id, "next")]
                        if kind == "exc" and fr.suppress and fr.after is not None:
                            self._edge(we.id, fr.after, "suppressed")
                    self._frames = saved
                    fr.cache[key] = (entry, outs)
                    self._edge(src, entry, label)
                    # continue routing from the end of the copy outward
                    for o_src, _o_lab in outs:
                        self._route_from(o_src, kind, kind, i - 1)
                    return
                self._edge(src, entry_exit[0], label)
                return
            i -= 1
        if kind == "return":
            self._edge(src, self.exit, label)
        elif kind == "exc":
            self._edge(src, self.raise_exit, label)
        else:  # break/continue outside loop: malformed, ignore
            self._edge(src, self.exit, label)

    def _stmt(self, s: ast.stmt, ins):
        if isinstance(s, ast.If):
            n = self._new("test", s)
            self._connect(ins, n.id)
            if may_raise_expr(s.test):
                self._route(n.id, "exc", "exc")
            t_out = self._block(s.body, [(n.id, "true")])
            f_out = self._block(s.orelse, [(n.id, "false")]) if s.orelse else [(n.id, "false")]
            return t_out + f_out
        if isinstance(s, ast.While):
            n = self._new("test", s)
            self._connect(ins, n.id)
            if may_raise_expr(s.test):
                self._route(n.id, "exc", "exc")
            after = self._new("join", s)
            fr = _Frame("loop", s, break_to=after.id, continue_to=n.id)
            self._frames.append(fr)
            b_out = self._block(s.body, [(n.id, "true")])
            self._frames.pop()
            for src, lab in b_out:
                self._edge(src, n.id, "back" if lab == "next" else lab)
            always = isinstance(s.test, ast.Constant) and bool(s.test.value)
            if not always:
                e_out = self._block(s.orelse, [(n.id, "false")]) if s.orelse else [(n.id, "false")]
                for src, lab in e_out:
                    self._edge(src, after.id, lab)
            return [(after.id, "next")]
        if isinstance(s, (ast.For, ast.AsyncFor)):
            it = self._new("for_iter", s)  # evaluates the iterable once
            self._connect(ins, it.id)
            self._route(it.id, "exc", "exc")
            n = self._new("for", s)  # loop head: one next() per visit
            self._edge(it.id, n.id, "next")
            self._route(n.id, "exc", "exc")
            after = self._new("join", s)
            fr = _Frame("loop", s, break_to=after.id, continue_to=n.id)
            self._frames.append(fr)
            b_out = self._block(s.body, [(n.id, "body")])
            self._frames.pop()
            for src, lab in b_out:
                self._edge(src, n.id, "back" if lab == "next" else lab)
            e_out = self._block(s.orelse, [(n.id, "exhausted")]) if s.orelse else [(n.id, "exhausted")]
            for src, lab in e_out:
                self._edge(src, after.id, lab)
            return [(after.id, "next")]
        if isinstance(s, (ast.With, ast.AsyncWith)):
            n = self._new("with", s)
            self._connect(ins, n.id)
            self._route(n.id, "exc", "exc")
            sup = any(
                isinstance(it.context_expr, ast.Call) and norm(it.context_expr.func) in SUPPRESSING_CMS
                for it in s.items
            )
            after = self._new("join", s)
            fr = _Frame("with", s, suppress=sup, after=after.id)
            self._frames.append(fr)
            b_out = self._block(s.body, [(n.id, "next")])
            self._frames.pop()
            if b_out:
                we = self._new("with_exit", s, copy_of="normal")
                self._connect(b_out, we.id)
                self._edge(we.id, after.id, "next")
            return [(after.id, "next")] if self.pred[after.id] else []
        if isinstance(s, ast.Try) or s.__class__.__name__ == "TryStar":
            return self._try(s, ins)
        if isinstance(s, ast.Match):
            n = self._new("match", s)
            self._connect(ins, n.id)
            self._route(n.id, "exc", "exc")
            outs = []
            irrefutable = False
            for c in s.cases:
                cn = self._new("case", c)
                self._edge(n.id, cn.id, "case")
                outs += self._block(c.body, [(cn.id, "next")])
                if c.guard is None and isinstance(c.pattern, ast.MatchAs) and c.pattern.pattern is None:
                    irrefutable = True
            if not irrefutable:
                outs.append((n.id, "nomatch"))
            return outs
        if isinstance(s, ast.Return):
            n = self._new("stmt", s)
            self._connect(ins, n.id)
            if may_raise(s):
                self._route(n.id, "exc", "exc")
            self._route(n.id, "return", "return")
            return []
        if isinstance(s, ast.Raise):
            n = self._new("stmt", s)
            self._connect(ins, n.id)
            self._route(n.id, "exc", "exc")
            return []
        if isinstance(s, ast.Break):
            n = self._new("stmt", s)
            self._connect(ins, n.id)
            self._route(n.id, "break", "break")
            return []
        if isinstance(s, ast.Continue):
            n = self._new("stmt", s)
            self._connect(ins, n.id)
            self._route(n.id, "continue", "continue")
            return []
        # simple statement (incl. nested def/class)
        n = self._new("stmt", s)
        self._connect(ins, n.id)
        if may_raise(s):
            self._route(n.id, "exc", "exc")
        return [(n.id, "next")]

    def _try(self, s, ins):
        has_finally = bool(s.finalbody)
        if has_finally:
            ffr = _Frame("finally", s)
            self._frames.append(ffr)
        handler_nodes = [self._new("handler", h) for h in s.handlers]
        catch_all = any(
            h.type is None or norm(h.type) in ("BaseException", "builtins.BaseException") or (
                isinstance(h.type, ast.Tuple) and any(norm(e) == "BaseException" for e in h.type.elts)
            )
            for h in s.handlers
        )
        outs = []
        if handler_nodes:
            tfr = _Frame("try", s, handlers=[h.id for h in handler_nodes], catch_all=catch_all)
            self._frames.append(tfr)
        b_out = self._block(s.body, ins)
        if handler_nodes:
            self._frames.pop()
        # else-block runs outside the handlers' protection but inside finally
        if s.orelse:
            b_out = self._block(s.orelse, b_out)
        outs += b_out
        for hn, h in zip(handler_nodes, s.handlers):
            outs += self._block(h.body, [(hn.id, "next")])
        if has_finally:
            self._frames.pop()
            if outs:
                fe = self._new("finally_enter", s, copy_of="normal")
                self._connect(outs, fe.id)
                outs = self._block(s.finalbody, [(fe.id, "next")])
        return outs

    # ---------------------------------------------------------------- queries
    def nodes_of(self, stmt: ast.AST) -> list[int]:
        return self.by_stmt.get(id(stmt), [])

    def stmt_nodes(self):
        return [n for n in self.nodes if n.stmt is not None]

    def find(self, pred) -> list[int]:
        return [n.id for n in self.nodes if n.stmt is not None and pred(n)]

    def reachable(self, starts, *, avoid_nodes=(), avoid_edges=None, labels_excluded=(), forward=True) -> set[int]:
        """Nodes reachable from `starts` (inclusive) without entering `avoid_nodes`
        and without using edges for which avoid_edges(src, dst, label) is true."""
        avoid = set(avoid_nodes)
        seen = set()
        dq = deque(s for s in starts if s not in avoid)
        seen.update(dq)
        adj = self.succ if forward else self.pred
        while dq:
            a = dq.popleft()
            for b, lab in adj[a]:
                if lab in labels_excluded:
                    continue
                if b in avoid or b in seen:
                    continue
                s_, d_ = (a, b) if forward else (b, a)
                if avoid_edges is not None and avoid_edges(s_, d_, lab):
                    continue
                seen.add(b)
                dq.append(b)
        return seen

    def path(self, starts, goals, *, avoid_nodes=(), avoid_edges=None, labels_excluded=()) -> list[int] | None:
        """A shortest path (list of node ids) from any start to any goal under the same restrictions."""
        avoid = set(avoid_nodes)
        goals = set(goals)
        prev: dict[int, int | None] = {}
        dq = deque()
        for s in starts:
            if s not in avoid:
                prev[s] = None
                dq.append(s)
        while dq:
            a = dq.popleft()
            if a in goals:
                out = []
                x: int | None = a
                while x is not None:
                    out.append(x)
                    x = prev[x]
                return out[::-1]
            for b, lab in self.succ[a]:
                if lab in labels_excluded or b in avoid or b in prev:
                    continue
                if avoid_edges is not None and avoid_edges(a, b, lab):
                    continue
                prev[b] = a
                dq.append(b)
        return None

    def successors_after(self, node_id: int, include_exc: bool = False) -> list[int]:
        return [b for b, lab in self.succ[node_id] if include_exc or lab != "exc"]

    def describe_path(self, path: list[int]) -> list[str]:
        out = []
        for nid in path:
            n = self.nodes[nid]
            if n.stmt is None:
                out.append(n.kind)
            else:
                from .index import head

                out.append(f"L{getattr(n.stmt, 'lineno', '?')}:{n.kind}:{head(n.stmt, 80)}")
        return out


def may_raise_expr(e: ast.AST) -> bool:
    return not _simple_expr(e)


# ---------------------------------------------------------------------- condition helpers
def edge_implies(test: ast.AST, label: bool):
    """Atoms whose truth value is implied by `test` evaluating to `label`.

    Returns list of (atom_expr, truth).  Sound, not complete: `A and B` true
    implies both; `A or B` false implies both false; `not` flips.
    """
    out = []

    def rec(e, val):
        if isinstance(e, ast.UnaryOp) and isinstance(e.op, ast.Not):
            rec(e.operand, not val)
        elif isinstance(e, ast.BoolOp) and isinstance(e.op, ast.And):
            if val:
                for v in e.values:
                    rec(v, True)
            else:
                out.append((e, False))
        elif isinstance(e, ast.BoolOp) and isinstance(e.op, ast.Or):
            if not val:
                for v in e.values:
                    rec(v, False)
            else:
                out.append((e, True))
        else:
            out.append((e, val))

    rec(test, label)
    return out


def guard_edges(cfg: CFG, atom_pred, want: bool):
    """Edges (src, label) of test nodes that establish `atom_pred(atom) is want`."""
    res = set()
    for n in cfg.nodes:
        if n.kind == "test" and isinstance(n.stmt, (ast.If, ast.While)):
            for lab, val in (("true", True), ("false", False)):
                for atom, truth in edge_implies(n.stmt.test, val):
                    if truth == want and atom_pred(atom):
                        res.add((n.id, lab))
    return res


def guarded_by(cfg: CFG, target_nodes, atom_pred, want: bool = True, extra_avoid_nodes=()) -> list[int] | None:
    """None if every path entry -> target passes an edge establishing the guard,
    otherwise a witness path that reaches a target without the guard."""
    ge = guard_edges(cfg, atom_pred, want)

    def avoid(src, dst, lab):
        return (src, lab) in ge

    return cfg.path([cfg.entry], target_nodes, avoid_edges=avoid, avoid_nodes=extra_avoid_nodes)
