"""Rendering and token validation of symbolic libcst terms built by sa.engine.peval.

The validation mirrors the checks libcst performs in its node constructors (a Float / Integer /
SimpleString / Name token must be a valid token of that kind); rendering produces the source text
libcst would generate for the expression shapes pynguin's renderers build.
"""

from __future__ import annotations

import ast
import re

from .peval import Raises, Term, Undecided

FLOAT_RE = re.compile(r"^(?:(?:\d[\d_]*)?\.\d[\d_]*(?:[eE][+-]?\d[\d_]*)?|\d[\d_]*\.(?:[eE][+-]?\d[\d_]*)?|\d[\d_]*[eE][+-]?\d[\d_]*)$")
INT_RE = re.compile(r"^(?:0[xX][0-9a-fA-F_]+|0[oO][0-7_]+|0[bB][01_]+|[1-9][\d_]*|0[0_]*)$")
NAME_RE = re.compile(r"^[^\W\d]\w*$")
STR_RE = re.compile(r"^(?:[rRbBuUfF]{0,2})(\"\"\"|'''|\"|')")


class Invalid(Exception):
    """The term contains a token libcst rejects (rendering would raise CSTValidationError)."""


def render(t) -> str:
    if isinstance(t, str):
        return t
    if not isinstance(t, Term):
        raise Undecided(f"not a term: {t!r}")
    n, f = t.name, t.fields
    if n == "Float":
        v = f.get("value")
        if not isinstance(v, str) or not FLOAT_RE.match(v):
            raise Invalid(f"Float({v!r}) is not a float token")
        return v
    if n == "Integer":
        v = f.get("value")
        if not isinstance(v, str) or not INT_RE.match(v):
            raise Invalid(f"Integer({v!r}) is not an integer token")
        return v
    if n == "Imaginary":
        v = f.get("value")
        if not isinstance(v, str) or not v.endswith(("j", "J")):
            raise Invalid(f"Imaginary({v!r})")
        return v
    if n == "SimpleString":
        v = f.get("value")
        ok = isinstance(v, str) and STR_RE.match(v) is not None
        if ok:
            try:
                ok = isinstance(ast.literal_eval(v), (str, bytes))
            except (ValueError, SyntaxError):
                ok = False
        if not ok:
            raise Invalid(f"SimpleString({v!r}) is not a string literal")
        return v
    if n == "Name":
        v = f.get("value")
        if not isinstance(v, str) or not NAME_RE.match(v):
            raise Invalid(f"Name({v!r}) is not an identifier")
        return v
    if n == "Attribute":
        return f"{render(f['value'])}.{render(f['attr'])}"
    if n == "UnaryOperation":
        op = f["operator"].name if isinstance(f.get("operator"), Term) else "?"
        sym = {"Minus": "-", "Plus": "+", "Not": "not ", "BitInvert": "~"}.get(op)
        if sym is None:
            raise Undecided(f"unary operator {op}")
        return f"{sym}{render(f['expression'])}"
    if n == "Arg":
        kw = f.get("keyword")
        return f"{render(kw)}={render(f['value'])}" if kw is not None else render(f["value"])
    if n == "Call":
        return f"{render(f['func'])}({', '.join(render(a) for a in f.get('args', []) or [])})"
    if n == "Element":
        return render(f["value"])
    if n == "DictElement":
        return f"{render(f['key'])}: {render(f['value'])}"
    if n == "List":
        return "[" + ", ".join(render(e) for e in f.get("elements", [])) + "]"
    if n == "Set":
        els = f.get("elements", [])
        if not els:
            raise Invalid("Set() without elements is rejected by libcst (and `{}` would be a dict)")
        return "{" + ", ".join(render(e) for e in els) + "}"
    if n == "Tuple":
        els = f.get("elements", [])
        if len(els) == 1:
            return "(" + render(els[0]) + ",)"
        return "(" + ", ".join(render(e) for e in els) + ")"
    if n == "Dict":
        return "{" + ", ".join(render(e) for e in f.get("elements", [])) + "}"
    if n == "parse_expression":
        src = f.get("source")
        try:
            compile(src, "<expr>", "eval")
        except (SyntaxError, ValueError, TypeError) as exc:
            raise Invalid(f"parse_expression({src!r}): {exc}") from exc
        return src
    if n == "ComparisonTarget":
        op = f["operator"].name if isinstance(f.get("operator"), Term) else "?"
        sym = {"Equal": "==", "Is": "is", "NotEqual": "!=", "IsNot": "is not", "GreaterThanEqual": ">=", "LessThanEqual": "<=", "GreaterThan": ">", "LessThan": "<", "In": "in", "NotIn": "not in"}.get(op)
        if sym is None:
            raise Undecided(f"comparison operator {op}")
        return f" {sym} {render(f['comparator'])}"
    if n == "Comparison":
        return render(f["left"]) + "".join(render(c) for c in f.get("comparisons", []))
    if n == "Assert":
        return f"assert {render(f['test'])}"
    if n == "SimpleStatementLine":
        return "; ".join(render(b) for b in f.get("body", []))
    raise Undecided(f"term {n}")


def safe_eval(src: str, names: dict):
    ns = {"__builtins__": {}, "float": float, "complex": complex, "set": set, "frozenset": frozenset, "True": True, "False": False, "None": None}
    ns.update(names)
    return eval(compile(src, "<rendered>", "eval"), ns)  # noqa: S307 - evaluates text produced by this checker from a symbolic term
